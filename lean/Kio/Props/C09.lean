import Kio.Proofs.TableLemmas
import Kio.Generated.Info
/-!
# C09 — the dynamic index resolves every known entity and nothing else
`Tables.nameFromKey` / `entityPath` / `load*` (Kio/Model/Tables.lean) model `kio.index`.
-/
namespace Kio.C09
open Kio

set_option maxRecDepth 1000000 in
/-- instance: every module found by walking the package has an index entry resolving to that
    module and its top-level class; every index leaf points at a walked module of the same name,
    version and type; no duplicates; API keys ↔ names one-to-one and exactly the payload APIs -/
theorem shipped : Generated.tables.c09 = true := by decide +kernel

/-- every walked module is reachable through the index and resolves to itself and its class -/
theorem resolves_exactly (m : ModuleInfo) (hm : m ∈ Generated.tables.modules) :
    Generated.tables.loadEntityModule m.key.api m.key.version m.key.kind = .ok m.key ∧
    Generated.tables.loadEntitySchema m.key.api m.key.version m.key.kind = .ok m.top :=
  Tables.c09_module Generated.tables shipped m hm

/-- keys map one-to-one to names -/
theorem key_bijection (k₁ k₂ : Int) (n : Nat) (h₁ : Generated.tables.nameFromKey k₁ = .ok n)
    (h₂ : Generated.tables.nameFromKey k₂ = .ok n) : k₁ = k₂ :=
  Tables.c09_keys_injective Generated.tables shipped k₁ k₂ n h₁ h₂

/-- **every** other key — any integer — is the documented unknown-key error (unbounded) -/
theorem unknown_key (t : Tables) (k : Int) (h : ∀ e ∈ t.apiKeys, e.1 ≠ k) :
    t.nameFromKey k = .error .unknownApiKey := Tables.nameFromKey_unknown t k h

/-- **every** other (name, version, type) is the documented unknown-entity error (unbounded) -/
theorem unknown_entity (t : Tables) (name : Nat) (version : Int) (et : EType)
    (h : ∀ n ∈ t.index, n.name = name → ∀ v ∈ n.versions, v.1 = version → ∀ l ∈ v.2, l.etype ≠ et) :
    t.entityPath name version et = .error .unknownEntity := Tables.entityPath_unknown t name version et h

/-- a lookup never returns something that is not in the table under exactly that key -/
theorem nothing_else (t : Tables) (name : Nat) (version : Int) (et : EType) (leaf : IndexLeaf)
    (h : t.entityPath name version et = .ok leaf) :
    ∃ n ∈ t.index, n.name = name ∧ ∃ v ∈ n.versions, v.1 = version ∧ leaf ∈ v.2 ∧ leaf.etype = et :=
  Tables.entityPath_ok t name version et leaf h

theorem only_documented_errors (t : Tables) (k version : Int) (et : EType) (e : IndexErr)
    (h : t.loadPayloadSchema k version et = .error e) :
    e = .unknownApiKey ∨ e = .unknownEntity ∨ e = .importFailed :=
  Tables.loadPayloadSchema_err t k version et e h

end Kio.C09
