import Kio.Props.C01
import Kio.Props.C02
import Kio.Proofs.Reencode
import Kio.Proofs.ReencodeCex
import Kio.Generated.All
/-!
# C05 — decoding is lossless: re-encoding reproduces the original bytes

A *canonical Kafka encoding* of class `s` is `Spec.enc s w` for a wire-level value assignment `w`
over the full wire domain (`Schema.valueOk`: every representable integer, millisecond timestamp
and duration, string, byte string, UUID and null).
-/
namespace Kio.C05
open Kio

/-- **C05 lossless**: decoding a canonical encoding (followed by anything) yields exactly the
    wire values and consumes exactly the encoding, and encoding the result reproduces the input
    bytes exactly -/
theorem lossless (env : Env) (ht : env.time = TimeCfg.repaired) (s : Schema) (hwf : s.wf env = true)
    (hfew : s.fewFields = true) (w : Value) (hw : s.valueOk env w = true) (b : Bytes)
    (hb : Spec.enc s w = some b) (rest : Bytes) :
    ∃ v, dec env s (b ++ rest) = .ok (v, rest) ∧ enc env s v = .ok b := by
  have he := C02.spec_eq_impl_ok env ht s hwf hfew w hw b hb
  exact ⟨w, C01.roundtrip env ht s hwf w hw b he rest, he⟩

/-- whatever the decoder returned for a canonical encoding is what was on the wire -/
theorem decoded_is_wire (env : Env) (ht : env.time = TimeCfg.repaired) (s : Schema) (hwf : s.wf env = true)
    (hfew : s.fewFields = true) (w : Value) (hw : s.valueOk env w = true) (b : Bytes)
    (hb : Spec.enc s w = some b) (rest : Bytes) (v : Value) (r : Bytes)
    (hd : dec env s (b ++ rest) = .ok (v, r)) : v = w ∧ r = rest := by
  obtain ⟨v', hd', _⟩ := lossless env ht s hwf hfew w hw b hb rest
  rw [hd] at hd'
  have := Except.ok.inj hd'
  have h1 := congrArg Prod.fst this
  have h2 := congrArg Prod.snd this
  simp only at h1 h2
  obtain ⟨w', hw', _⟩ := lossless env ht s hwf hfew w hw b hb rest
  have he := C02.spec_eq_impl_ok env ht s hwf hfew w hw b hb
  have hrt := C01.roundtrip env ht s hwf w hw b he rest
  rw [hd] at hrt
  have := Except.ok.inj hrt
  exact ⟨congrArg Prod.fst this, congrArg Prod.snd this⟩

/-- decode-then-encode is idempotent on canonical encodings -/
theorem idempotent_canonical (env : Env) (ht : env.time = TimeCfg.repaired) (s : Schema)
    (hwf : s.wf env = true) (hfew : s.fewFields = true) (w : Value) (hw : s.valueOk env w = true)
    (b : Bytes) (hb : Spec.enc s w = some b) (v : Value) (r : Bytes)
    (hd : dec env s b = .ok (v, r)) (b' : Bytes) (he : enc env s v = .ok b') :
    b' = b ∧ dec env s b' = .ok (v, []) := by
  have h0 := decoded_is_wire env ht s hwf hfew w hw b hb [] v r (by simpa using hd)
  obtain ⟨rfl, rfl⟩ := h0
  have he0 := C02.spec_eq_impl_ok env ht s hwf hfew v hw b hb
  rw [he0] at he
  have := Except.ok.inj he
  subst this
  refine ⟨rfl, ?_⟩
  have := C01.roundtrip env ht s hwf v hw b he0 []
  simpa using this

/-- **whatever the decoder returns is accepted by the encoder** — for *arbitrary* input bytes
    (up to 2^33 bytes), on every coherent class whose nullable tagged primitives default to None
    and whose tagged defaults are `==` to themselves (no NaN).  The re-encoding is at most three
    times as long as what was consumed (a known tag's size prefix is ignored by the reader and
    re-encoded minimally by the writer, so a factor 1 bound is false: `ReencodeCex`). -/
theorem reencodable (env : Env) (ht : env.time = TimeCfg.repaired) (s : Schema) (hwf : s.wf env = true)
    (hnd : s.taggedNullDefaults = true) (hdr : s.taggedDefaultsRefl env = true)
    (bs : Bytes) (hlen : 3 * bs.length < 2 ^ 35) (v : Value) (rest : Bytes)
    (h : dec env s bs = .ok (v, rest)) :
    ∃ b', enc env s v = .ok b' ∧ b'.length + 3 * rest.length ≤ 3 * bs.length := by
  obtain ⟨hr, hw⟩ := Kio.wf_buildable env s hwf
  unfold dec at h; rw [hr] at h
  unfold enc; rw [hw]
  exact Kio.Schema.reencodable' env ht C01.float_exact s hwf hnd hdr bs hlen v rest h

set_option maxRecDepth 100000 in
/-- the two side conditions hold on every shipped class (regenerated) -/
theorem shipped_reencodable_conditions :
    allOk (fun s => s.taggedNullDefaults && s.taggedDefaultsRefl (Env.current Generated.errorCodes))
      Generated.allClasses = true := by decide +kernel

/-- the µs of a decoded timestamp -/
def usOf : Except Err Value → Option Int
  | .ok (.datetime us) => some us
  | _ => none

/-- as shipped the float conversions lost information: wire timestamp 1234567890123 ms was
    decoded to a whole second, and 2^53+1 ms durations re-encoded differently -/
theorem shipped_lossy_witness :
    usOf (tzAwareFromI64 TimeCfg.shipped 1234567890123) = some 1234567890000000
    ∧ msOfTimedelta TimeCfg.shipped (9007199254740993 * 1000) = 9007199254740992
    ∧ usOf (tzAwareFromI64 TimeCfg.repaired 1234567890123) = some 1234567890123000
    ∧ msOfTimedelta TimeCfg.repaired (9007199254740993 * 1000) = 9007199254740993 := by
  refine ⟨?_, ?_, ?_, ?_⟩ <;> decide +kernel

end Kio.C05
