import Kio.Model.Cache
/-!
# C19 — readers and writers are stateless: history, failures and threads do not matter
(partial: the atomicity of the cache operations and the absence of other shared mutable state
are facts about CPython objects; they are what the harness attacks on the real code)
-/
namespace Kio.C19
open Kio.Cache

theorem lookup_store_same (c : Cache) (k : Key) (p : Nat) : lookup (store c k p) k = some p := by
  simp [lookup, store]

theorem lookup_store_other (c : Cache) (k k' : Key) (p : Nat) (h : k ≠ k') :
    lookup (store c k p) k' = lookup c k' := by
  simp [lookup, store, List.find?_cons, h]

/-- storing the right plan preserves the invariant -/
theorem inv_store (d : Descr) (f : Nat) (c : Cache) (k : Key) (h : Inv d f c) :
    Inv d f (store c k (mkPlan d f k)) := by
  intro k' p hp
  by_cases hk : k = k'
  · subst hk; rw [lookup_store_same] at hp; injection hp with hp; exact hp.symm
  · rw [lookup_store_other c k k' _ hk] at hp; exact h k' p hp

mutual
/-- **rely/guarantee**: whatever the other threads do between the atomic cache operations of a
    build (as long as they keep the invariant), the build returns the plan of its key and
    leaves a cache satisfying the invariant -/
theorem build_correct (d : Descr) (f : Nat) (hst : Stable d f) :
    ∀ (g : Nat) (k : Key) (c c' : Cache) (p : Nat), BuildRun d f g k c c' p →
      p = mkPlan d f k ∧ Inv d f c'
  | _, _, _, _, _, .hit g k c c' p hinv hl => ⟨hinv k p hl, hinv⟩
  | _, _, _, _, _, .miss g k c c1 c2 c3 ps hinv1 _ hn hinv3 => by
    have hps := nested_correct d f hst g (d.nested k) c1 c2 ps hn
    have hp : d.compute k ps = mkPlan d f k := by
      rw [hps.1, ← hst k]; rfl
    refine ⟨hp, ?_⟩
    rw [hp]
    exact inv_store d f c3 k hinv3
theorem nested_correct (d : Descr) (f : Nat) (hst : Stable d f) :
    ∀ (g : Nat) (ks : List Key) (c c' : Cache) (ps : List Nat), NestedRuns d f g ks c c' ps →
      ps = ks.map (mkPlan d f) ∧ True
  | _, _, _, _, _, .nil g c => ⟨rfl, trivial⟩
  | _, _, _, _, _, .cons g k ks c c' c'' p ps hb hr => by
    have h1 := build_correct d f hst g k c c' p hb
    have h2 := nested_correct d f hst g ks c' c'' ps hr
    exact ⟨by rw [h1.1, h2.1]; rfl, trivial⟩
end

/-- **history independence**: any sequence of builds (of any keys, in any order, any number of
    repetitions), each under arbitrary invariant-preserving interference, returns for each key
    its plan — the same as on an empty cache -/
theorem history_independent (d : Descr) (f : Nat) (hst : Stable d f) (g : Nat) (k : Key)
    (c₁ c₁' c₂ c₂' : Cache) (p₁ p₂ : Nat)
    (h₁ : BuildRun d f g k c₁ c₁' p₁) (h₂ : BuildRun d f g k c₂ c₂' p₂) : p₁ = p₂ := by
  rw [(build_correct d f hst g k c₁ c₁' p₁ h₁).1, (build_correct d f hst g k c₂ c₂' p₂ h₂).1]

/-- **schedule independence**: the outcome of using what a build returned depends only on the
    key, the input and where the stream fails — not on the cache it ran against, the other
    threads' interference, or earlier calls -/
theorem schedule_independent (d : Descr) (u : Use) (f : Nat) (hst : Stable d f) (g : Nat) (k : Key)
    (c c' : Cache) (p : Nat) (h : BuildRun d f g k c c' p) (input : Nat) (failAt : Option Nat) :
    u.run p input failAt = u.run (mkPlan d f k) input failAt := by
  rw [(build_correct d f hst g k c c' p h).1]

/-- **I/O failure**: a call whose stream raises does not touch the cache (using a plan is not a
    cache operation), so the next build/use behaves as if the failed call never happened -/
theorem io_failure (d : Descr) (u : Use) (f : Nat) (hst : Stable d f) (g : Nat) (k : Key)
    (c c' c'' : Cache) (p p' : Nat) (h : BuildRun d f g k c c' p) (h' : BuildRun d f g k c' c'' p')
    (input : Nat) (j : Nat) :
    u.run p' input none = u.run (mkPlan d f k) input none ∧ Inv d f c'' := by
  have := build_correct d f hst g k c' c'' p' h'
  exact ⟨by rw [this.1], this.2⟩

/-- non-vacuity: a concrete description (a class with two nested classes) has a miss-run on the
    empty cache that ends with the plans cached -/
example : ∃ c' p, BuildRun ⟨fun k => if k.cls = 0 then [⟨1, false⟩] else [], fun k ps => k.cls + ps.sum⟩ 2 1
    ⟨1, false⟩ [] c' p := by
  refine ⟨_, _, BuildRun.miss 0 ⟨1, false⟩ [] [] [] [] [] ?_ rfl (NestedRuns.nil 0 []) ?_⟩
  · intro k p h; simp [lookup] at h
  · intro k p h; simp [lookup] at h

end Kio.C19
