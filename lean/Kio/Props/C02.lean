import Kio.Proofs.SpecEq
import Kio.Proofs.SpecEqGenerated
import Kio.Proofs.Codec
import Kio.Proofs.Float
/-!
# C02 — encoder output is the Kafka wire format, byte for byte
`Spec.enc` (Kio/Spec/Wire.lean) is the independent statement of the format.

-- FULL STATEMENT (not proved): theorem impl_eq_spec (env : Env) (ht : env.time = TimeCfg.repaired)
--     (s : Schema) (hwf : s.wf env = true) (v : Value) (hv : s.valueOk env v = true) :
--     (enc env s v).toOption = Spec.enc s v
Reason: it is false as it stands (`impl_eq_spec_counterexample`).  Model and specification differ
in two situations, both outside the generated classes:
* a *tagged* field annotated `tuple[E, ...] | None`, holding `None` with a non-`None` default: the
  encoder writes a null array, `Spec.fieldBytes` has no encoding (`Schema.tagArrOk` excludes it);
* a class with `2^35` tagged fields, all set: `uvarint(len(...))` raises in the encoder, the
  specification does not bound the count (`Schema.fewFields` excludes it).
-/
namespace Kio.C02
open Kio

theorem float_exact : FloatExact := by
  intro k h0 h1
  apply ms_exact
  rw [abs_lt]
  constructor <;> omega

/-- **C02, success direction**: on every coherent class and well-typed canonical instance, the
    bytes the encoder emits are exactly the bytes the specification prescribes -/
theorem impl_eq_spec_ok (env : Env) (ht : env.time = TimeCfg.repaired) (s : Schema)
    (hwf : s.wf env = true) (hdom : s.tagArrOk = true) (v : Value) (hv : s.valueOk env v = true)
    (bs : Bytes) (h : enc env s v = .ok bs) : Spec.enc s v = some bs := by
  obtain ⟨_, hw⟩ := Kio.wf_buildable env s hwf
  unfold enc at h; rw [hw] at h
  exact Kio.Schema.write_eq_spec_ok env ht float_exact s hwf hdom v hv bs h

/-- **C02, converse**: the encoder raises only where there is no encoding -/
theorem spec_eq_impl_ok (env : Env) (ht : env.time = TimeCfg.repaired) (s : Schema)
    (hwf : s.wf env = true) (hfew : s.fewFields = true) (v : Value) (hv : s.valueOk env v = true)
    (bs : Bytes) (h : Spec.enc s v = some bs) : enc env s v = .ok bs := by
  obtain ⟨_, hw⟩ := Kio.wf_buildable env s hwf
  unfold enc; rw [hw]
  exact Kio.Schema.spec_eq_write_ok env ht float_exact s hwf hfew v hv bs h

/-- **C02**: on every coherent class (without tagged nullable entity arrays, with fewer than
    `2^35` fields per class) and well-typed canonical instance the encoder emits exactly the bytes
    the specification prescribes, and raises exactly where there is no encoding -/
theorem impl_eq_spec (env : Env) (ht : env.time = TimeCfg.repaired) (s : Schema)
    (hwf : s.wf env = true) (hdom : s.tagArrOk = true) (hfew : s.fewFields = true)
    (v : Value) (hv : s.valueOk env v = true) :
    (enc env s v).toOption = Spec.enc s v := by
  obtain ⟨_, hw⟩ := Kio.wf_buildable env s hwf
  unfold enc; rw [hw]
  exact Kio.Schema.write_eq_spec env ht float_exact s hwf hdom hfew v hv

/-- without `tagArrOk` the statement fails -/
theorem impl_eq_spec_counterexample :
    ∃ (env : Env) (s : Schema) (v : Value), env.time = TimeCfg.repaired ∧ s.wf env = true ∧
      s.valueOk env v = true ∧ (s.write env v).toOption ≠ Spec.enc s v :=
  Kio.Schema.write_eq_spec_counterexample

end Kio.C02

namespace Kio.C02
open Kio

/-- C02 for the shipped classes (regenerated table): the side conditions `tagArrOk` and
    `fewFields` are kernel-checked on all of them, so the statement is unconditional there -/
theorem shipped (env : Env) (ht : env.time = TimeCfg.repaired) (s : Schema)
    (hs : s ∈ Generated.allClasses) (hwf : s.wf env = true) (v : Value)
    (hv : s.valueOk env v = true) : (enc env s v).toOption = Spec.enc s v := by
  obtain ⟨_, hw⟩ := Kio.wf_buildable env s hwf
  unfold enc; rw [hw]
  exact Kio.generated_write_eq_spec env ht float_exact s hs hwf v hv

end Kio.C02
