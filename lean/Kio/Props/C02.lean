import Kio.Proofs.SpecEq
import Kio.Proofs.Codec
import Kio.Proofs.Float
/-!
# C02 — encoder output is the Kafka wire format, byte for byte
`Spec.enc` (Kio/Spec/Wire.lean) is the independent statement of the format.
-/
namespace Kio.C02
open Kio

theorem float_exact : FloatExact := by
  intro k h0 h1
  apply ms_exact
  rw [abs_lt]
  constructor <;> omega

/-- **C02**: on every coherent class and well-typed canonical instance the encoder emits exactly
    the bytes the specification prescribes, and raises exactly where there is no encoding -/
theorem impl_eq_spec (env : Env) (ht : env.time = TimeCfg.repaired) (s : Schema)
    (hwf : s.wf env = true) (v : Value) (hv : s.valueOk env v = true) :
    (enc env s v).toOption = Spec.enc s v := by
  obtain ⟨_, hw⟩ := Kio.wf_buildable env s hwf
  unfold enc; rw [hw]
  exact Kio.Schema.write_eq_spec env ht float_exact s hwf v hv

end Kio.C02
