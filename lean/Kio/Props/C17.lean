import Kio.Proofs.RecWrite
import Kio.Proofs.Crc
import Kio.Proofs.Float
import Kio.Model.Current
/-!
# C17 — new record batches are written in the Kafka v2 batch format
`Spec.batchBytes` / `Spec.deriveBatch` / `Spec.decBatch` (Kio/Spec/Batch.lean) are the
independent statement of the format, of the derived batch parameters, and an independent decoder.
-/
namespace Kio.C17
open Kio

theorem float_exact : FloatExact := by
  intro k h0 h1
  apply ms_exact
  rw [abs_lt]
  constructor <;> omega

/-- **layout**: for every non-empty record list with millisecond-precision timestamps, what
    `write_new_batch` emits is the v2 layout of the correctly derived parameters (base offset,
    last offset delta, base/max timestamp, count, batch length, CRC) -/
theorem layout (nb : NewRecordBatch) (hts : ∀ r ∈ nb.records, r.msTimestamp) (bs : Bytes)
    (h : writeNewBatch RecCfg.repaired nb = .ok bs) :
    ∃ wb, Spec.deriveBatch nb.params = some wb ∧ Spec.batchBytes wb = some bs :=
  Kio.writeNewBatch_eq_spec float_exact nb hts bs h

/-- conversely the writer succeeds whenever the derived batch is representable -/
theorem complete (nb : NewRecordBatch) (hts : ∀ r ∈ nb.records, r.msTimestamp)
    (wb : Spec.WireBatch) (bs : Bytes) (hd : Spec.deriveBatch nb.params = some wb)
    (h : Spec.batchBytes wb = some bs) : writeNewBatch RecCfg.repaired nb = .ok bs :=
  Kio.spec_eq_writeNewBatch float_exact nb hts wb bs hd h

/-- the independent decoder inverts the specification's encoder -/
theorem spec_roundtrip (b : Spec.WireBatch) (bs : Bytes) (h : Spec.batchBytes b = some bs) :
    Spec.decBatch bs = some b := Kio.spec_decBatch_batchBytes b bs h

/-- **independent decode**: an independent decoder recovers exactly the input records and the
    derived batch parameters from the writer's output -/
theorem independent_decode (nb : NewRecordBatch) (hts : ∀ r ∈ nb.records, r.msTimestamp)
    (bs : Bytes) (h : writeNewBatch RecCfg.repaired nb = .ok bs) :
    ∃ wb, Spec.deriveBatch nb.params = some wb ∧ Spec.decBatch bs = some wb := by
  obtain ⟨wb, hd, hb⟩ := layout nb hts bs h
  exact ⟨wb, hd, spec_roundtrip wb bs hb⟩

/-- **CRC coverage**: bytes 17..20 hold the CRC-32C of exactly the bytes from offset 21 (the
    attributes field) to the end; bytes 8..11 hold the total length − 12; byte 16 is magic 2 -/
theorem crc_covers (nb : NewRecordBatch) (hts : ∀ r ∈ nb.records, r.msTimestamp) (bs : Bytes)
    (h : writeNewBatch RecCfg.repaired nb = .ok bs) :
    21 ≤ bs.length ∧
    Spec.intBE 4 false (Crc.crc32c (bs.drop 21)) = some ((bs.drop 17).take 4) ∧
    Spec.intBE 4 true ((bs.length : Int) - 12) = some ((bs.drop 8).take 4) ∧
    bs[16]? = some 2 := by
  obtain ⟨wb, _, hb⟩ := layout nb hts bs h
  exact Kio.spec_crc_covers wb bs hb

/-- the CRC model is CRC-32C: the standard check value -/
theorem crc_check_value :
    Crc.crc32c [0x31, 0x32, 0x33, 0x34, 0x35, 0x36, 0x37, 0x38, 0x39] = 0xE3069283 :=
  Crc.check_value

/-- as shipped the writer truncated float milliseconds: 1.001 s was written as 1000 ms -/
theorem shipped_truncation_witness :
    recMs RecCfg.shipped 1001000 = 1000 ∧ recMs RecCfg.repaired 1001000 = 1001 := by
  constructor <;> decide +kernel

/-- the tree as it is now uses the repaired writer -/
theorem current_repaired : RecCfg.current = RecCfg.repaired := rfl

end Kio.C17
