import Kio.Model.Records
namespace Kio.C17
end Kio.C17
