import Kio.Props.C04.S0
import Kio.Props.C04.S1
import Kio.Props.C04.S2
import Kio.Props.C04.S3
import Kio.Props.C04.S4
import Kio.Props.C04.S5
import Kio.Props.C04.S6
import Kio.Props.C04.S7
import Kio.Props.C04.S8
import Kio.Props.C04.S9
import Kio.Props.C04.S10
import Kio.Props.C04.S11
import Kio.Props.C04.S12
import Kio.Props.C04.S13
import Kio.Props.C04.S14
import Kio.Props.C04.S15
import Kio.Pinned.Check
/-!
# C04 — the shipped schema is exactly what the generator derives from the pinned definitions
`Gen` (Kio/Gen) models the generator; `Pinned.defs` are the pinned definitions (reconstructed,
DESIGN §6.4); `Generated.*` is what the translator read back from the package as it is now.
-/
namespace Kio.C04
open Kio Kio.Gen

/-- **every walked module, class by class and field by field** (names, order, types,
    nullability, tags, defaults, flexibility, key, header, dataclass options), is what `Gen`
    derives from the pinned definition of its package at its version -/
theorem gen_pinned_eq_shipped :
    ∀ k, k < shardCount → shardOk Generated.tables Pinned.defs Generated.allClasses k = true := by
  intro k hk
  have : k = 0 ∨ k = 1 ∨ k = 2 ∨ k = 3 ∨ k = 4 ∨ k = 5 ∨ k = 6 ∨ k = 7 ∨ k = 8 ∨ k = 9 ∨ k = 10 ∨ k = 11
      ∨ k = 12 ∨ k = 13 ∨ k = 14 ∨ k = 15 := by unfold shardCount at hk; omega
  rcases this with rfl | rfl | rfl | rfl | rfl | rfl | rfl | rfl | rfl | rfl | rfl | rfl | rfl | rfl | rfl | rfl
  · exact shard0
  · exact shard1
  · exact shard2
  · exact shard3
  · exact shard4
  · exact shard5
  · exact shard6
  · exact shard7
  · exact shard8
  · exact shard9
  · exact shard10
  · exact shard11
  · exact shard12
  · exact shard13
  · exact shard14
  · exact shard15

set_option maxRecDepth 1000000 in
/-- the shards cover every walked module, and every class is in a module -/
theorem shards_cover :
    Generated.tables.modules.length ≤ shardCount * shardSize ∧
    (Generated.tables.modules.map (·.classes.length)).sum = Generated.allClasses.length := by
  decide +kernel

set_option maxRecDepth 1000000 in
/-- conversely every version of every pinned definition exists as a module -/
theorem all_defs_generated : allDefsGenerated Generated.tables Pinned.defs = true := by decide +kernel

set_option maxRecDepth 1000000 in
/-- the independent pin: API names, keys, version ranges, entity types, first flexible versions -/
theorem api_table : Pinned.apiTableOk Generated.tables = true := by decide +kernel

/-- the error-code table is the pinned one -/
theorem error_codes : Generated.errorCodes = Pinned.errorCodes := by decide +kernel

end Kio.C04
