import Kio.Proofs.Foreign
import Kio.Proofs.Conforms
import Kio.Proofs.ConformsMix
import Kio.Model.Current
import Kio.Generated.All
/-!
# C03 — the decoder accepts every conforming encoding, including forward-compatible ones
`Spec.Conforms s w bs` (Kio/Spec/Conforms.lean) is the *relational* statement of what a conforming
peer may send for the wire values `w`: at **every occurrence of every structure independently** it
may omit a tagged field whose value equals the default or send it explicitly (explicit null
included), and add any unknown tagged entries (tags the structure does not declare, strictly
ascending together with the known ones, payloads below 2^35 bytes).  `accepts_conforming` is the
property at full strength.  `Spec.encForeign` (Kio/Spec/Foreign.lean) is the executable
sub-family (one pattern applied uniformly) that the harness uses to *produce* bytes;
`foreign_is_conforming` shows its outputs are instances of the relation, and
`Kio.ConformsExample.example_not_uniform` that the relation is strictly larger.
-/
namespace Kio.C03
open Kio

/-- **C03, full strength**: every conforming encoding of every wire-level value assignment of
    every coherent class decodes to exactly those values — absent tagged fields at their defaults,
    unknown ones skipped by their size — and the decoder consumes exactly the encoding -/
theorem accepts_conforming (env : Env) (ht : env.time = TimeCfg.repaired)
    (hskip : env.skipUnknownTags = true) (hnull : env.nullableTaggedReader = true)
    (s : Schema) (hwf : s.wf env = true) (w : Value) (hw : s.valueOk env w = true) (bs : Bytes)
    (h : Spec.Conforms s w bs) (rest : Bytes) :
    dec env s (bs ++ rest) = .ok (w, rest) := by
  obtain ⟨hr, _⟩ := Kio.wf_buildable env s hwf
  unfold dec; rw [hr]
  exact Kio.Schema.accepts_conforming env ht hskip hnull s hwf w hw bs h rest

/-- the bytes the harness produces with `Spec.encForeign` are conforming encodings -/
theorem foreign_is_conforming (env : Env) (pat : Spec.ForeignPat) (hpat : pat.ok = true)
    (s : Schema) (hwf : s.wf env = true)
    (havoid : Spec.Schema.avoids (pat.unknown.map (·.1)) s = true)
    (v : Value) (bs : Bytes) (h : Spec.encForeign pat s v = some bs) : Spec.Conforms s v bs :=
  Kio.Spec.encForeign_conforms env pat hpat s hwf havoid v bs h

/-- the bytes the harness produces with `Spec.encMixed` (choices that differ from occurrence to
    occurrence, derived from a seed) are conforming encodings, for every configuration and seed -/
theorem mixed_is_conforming (env : Env) (cfg : Spec.MixCfg) (seed : Nat) (s : Schema)
    (hwf : s.wf env = true) (v : Value) (bs : Bytes) (h : Spec.encMixed cfg seed s v = some bs) :
    Spec.Conforms s v bs :=
  Kio.Spec.encMixed_conforms env cfg seed s hwf v bs h

/-- the relation is not vacuous and discriminates: a mixed per-occurrence encoding conforms and
    decodes, is not produced by any single uniform pattern, and descending tags do not conform -/
theorem conforms_examples :
    Spec.Conforms Kio.ConformsExample.outer Kio.ConformsExample.value Kio.ConformsExample.exampleBytes
    ∧ (∀ pat, Spec.encForeign pat Kio.ConformsExample.outer Kio.ConformsExample.value
          ≠ some Kio.ConformsExample.exampleBytes)
    ∧ ¬ Spec.Conforms Kio.ConformsExample.emptyClass (.entity []) Kio.ConformsExample.descendingBytes :=
  ⟨Kio.ConformsExample.example_conforms, Kio.ConformsExample.example_not_uniform,
   Kio.ConformsExample.descending_not_conforms⟩

/-- **C03 for the executable family**: for every coherent class, every wire-level value assignment and every presence
    pattern (explicit defaults / explicit nulls, unknown tags anywhere in ascending order, at
    every nesting level) decoding succeeds, yields exactly the values on the wire — absent
    tagged fields at their defaults, unknown ones skipped by their size — and consumes exactly
    the encoding -/
theorem accepts_foreign (env : Env) (ht : env.time = TimeCfg.repaired)
    (hskip : env.skipUnknownTags = true) (hnull : env.nullableTaggedReader = true)
    (pat : Spec.ForeignPat) (hpat : pat.ok = true) (s : Schema) (hwf : s.wf env = true)
    (havoid : Spec.Schema.avoids (pat.unknown.map (·.1)) s = true)
    (w : Value) (hw : s.valueOk env w = true) (bs : Bytes)
    (h : Spec.encForeign pat s w = some bs) (rest : Bytes) :
    dec env s (bs ++ rest) = .ok (w, rest) := by
  obtain ⟨hr, _⟩ := Kio.wf_buildable env s hwf
  unfold dec; rw [hr]
  exact Kio.Schema.accepts_foreign env ht hskip hnull pat hpat s hwf havoid w hw bs h rest

/-- as shipped, an unknown tag was an internal `KeyError` (repaired, fix A) -/
theorem shipped_unknown_tag_witness :
    dec (Env.shipped []) (.mk 0 true false []) [1, 99, 2, 0xAA, 0xBB] = .error .keyError := by rfl

end Kio.C03
