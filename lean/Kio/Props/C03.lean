import Kio.Proofs.Foreign
import Kio.Model.Current
import Kio.Generated.All
/-!
# C03 — the decoder accepts every conforming encoding, including forward-compatible ones
`Spec.encForeign` (Kio/Spec/Foreign.lean) enumerates what a conforming peer may send.
-/
namespace Kio.C03
open Kio

/-- **C03**: for every coherent class, every wire-level value assignment and every presence
    pattern (explicit defaults / explicit nulls, unknown tags anywhere in ascending order, at
    every nesting level) decoding succeeds, yields exactly the values on the wire — absent
    tagged fields at their defaults, unknown ones skipped by their size — and consumes exactly
    the encoding -/
theorem accepts_foreign (env : Env) (ht : env.time = TimeCfg.repaired)
    (hskip : env.skipUnknownTags = true) (hnull : env.nullableTaggedReader = true)
    (pat : Spec.ForeignPat) (hpat : pat.ok = true) (s : Schema) (hwf : s.wf env = true)
    (havoid : Spec.Schema.avoids (pat.unknown.map (·.1)) s = true)
    (w : Value) (hw : s.valueOk env w = true) (bs : Bytes)
    (h : Spec.encForeign pat s w = some bs) (rest : Bytes) :
    dec env s (bs ++ rest) = .ok (w, rest) := by
  obtain ⟨hr, _⟩ := Kio.wf_buildable env s hwf
  unfold dec; rw [hr]
  exact Kio.Schema.accepts_foreign env ht hskip hnull pat hpat s hwf havoid w hw bs h rest

/-- as shipped, an unknown tag was an internal `KeyError` (repaired, fix A) -/
theorem shipped_unknown_tag_witness :
    dec (Env.shipped []) (.mk 0 true false []) [1, 99, 2, 0xAA, 0xBB] = .error .keyError := by rfl

end Kio.C03
