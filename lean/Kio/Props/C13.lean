import Kio.Proofs.Codec
import Kio.Model.Current
import Kio.Generated.All
import Kio.Generated.Dispatch
/-!
# C13 — every entity is self-describing and its description is coherent
`Schema.wf` (Kio/Model/Typing.lean) is the coherence predicate; `Schema.defaultsOk` adds that
every explicit default inhabits the declared type.
-/
namespace Kio.C13
open Kio

mutual
/-- `v` inhabits the annotation of a field of this shape (same content as `Shape.valueOk`,
    written by structural recursion on the schema so that the kernel can evaluate it) -/
def Schema.inhabits (env : Env) : Schema → Value → Bool
  | .mk _ _ rh fs, .entity vs => Fields.inhabits env rh fs vs
  | _, _ => false
termination_by structural s => s
def Fields.inhabits (env : Env) (rh : Bool) : List Field → List Value → Bool
  | [], [] => true
  | f :: fs, v :: vs => Field.inhabits env rh f v && Fields.inhabits env rh fs vs
  | _, _ => false
termination_by structural l => l
def Field.inhabits (env : Env) (rh : Bool) : Field → Value → Bool
  | .mk m sh, v =>
    if rh && m.isClientId then primValueOk env .string true v else Shape.inhabits env m sh v
termination_by structural f => f
def Shape.inhabits (env : Env) (m : FieldMeta) : Shape → Value → Bool
  | .prim _ o, v => (match m.kafkaType with | some k => primValueOk env k o v | none => false)
  | .primArr _ e a, v =>
    (match m.kafkaType with
     | some k => (match v with
        | .tuple vs => allOk (primValueOk env k e) vs
        | .none => a
        | _ => false)
     | none => false)
  | .ent s o, v => (match v with | .none => o | v => Schema.inhabits env s v)
  | .entArr s a, v =>
    (match v with
     | .tuple vs => allOk (Schema.inhabits env s) vs
     | .none => a
     | _ => false)
  | .bad, _ => false
termination_by structural s => s
end

mutual
/-- every explicit default inhabits the declared type (and is canonical) -/
def Schema.defaultsOk (env : Env) : Schema → Bool
  | .mk _ _ rh fs => Fields.defaultsOk env rh fs
termination_by structural s => s
def Fields.defaultsOk (env : Env) (rh : Bool) : List Field → Bool
  | [] => true
  | f :: fs => Field.defaultsOk env rh f && Fields.defaultsOk env rh fs
termination_by structural l => l
def Field.defaultsOk (env : Env) (rh : Bool) : Field → Bool
  | .mk m sh =>
    (match m.dflt with
     | .val v => Field.inhabits env rh (.mk m sh) v
     | .missing => true
     | .unrepresentable => false)
    && Shape.defaultsOk env sh
termination_by structural f => f
def Shape.defaultsOk (env : Env) : Shape → Bool
  | .ent s _ => Schema.defaultsOk env s
  | .entArr s _ => Schema.defaultsOk env s
  | _ => true
termination_by structural s => s
end

set_option maxRecDepth 100000 in
/-- instance: all regenerated classes (1629 at the pinned commit) and all their fields are
    coherent: known Kafka type matching the Python type, nullable only where the wire has a
    null, arrays are tuples, tags unique, in range and only in flexible versions, every tagged
    field has a resolvable default, dispatch-table entries exist -/
theorem shipped_coherent :
    allOk (Schema.wf (Env.current Generated.errorCodes)) Generated.allClasses = true := by
  decide +kernel

set_option maxRecDepth 100000 in
/-- instance: every explicit default inhabits its declared type -/
theorem shipped_defaults :
    allOk (Schema.defaultsOk (Env.current Generated.errorCodes)) Generated.allClasses = true := by
  decide +kernel

/-- **derivable**: from a coherent description alone a reader and a writer can be built -/
theorem derivable (env : Env) (s : Schema) (hwf : s.wf env = true) :
    s.readerBuildErr env = none ∧ s.writerBuildErr env = none := Kio.wf_buildable env s hwf

/-- the model's dispatch tables are the code's, entry by entry: for each of the 19 × 2 × 2
    (Kafka type name, flexible, optional) triples the real `get_reader` / `get_writer` return the
    function object the model names — or raise `NotImplementedError` where the model has no entry
    (rows observed on /repo by the translator on every run) -/
theorem dispatch_tables : dispatchOk Generated.readerRows Generated.writerRows = true := by
  decide +kernel

/-- the model's implicit defaults of the primitive types are the code's (`get_implicit_default`
    observed by the translator for every primitive type, plain and through a subclass) -/
theorem implicit_defaults :
    implicitOk (Env.current Generated.errorCodes) Generated.implicitRows = true := by
  decide +kernel

/-- the class counts the instance theorems range over -/
theorem class_count : Generated.allClasses.length = Generated.numClasses := by decide +kernel

end Kio.C13
