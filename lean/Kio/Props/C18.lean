import Kio.Model.Records
namespace Kio.C18
end Kio.C18
