import Kio.Proofs.RecRead
import Kio.Proofs.RecReadFloor
import Kio.Proofs.FloatSec
import Kio.Model.Current
/-!
# C18 — reading a record batch is faithful and rejects damaged data
-/
namespace Kio.C18
open Kio

/-- **faithful read — partial**: a reference-encoded batch whose record timestamps are whole
    seconds reads back exactly as encoded (header fields, offsets, keys, values, headers), and
    leaves exactly the following bytes.  FULL STATEMENT (false of the code, see
    `timestamp_ms_lost_witness` and known finding C18/I): the same for millisecond timestamps. -/
theorem read_spec_partial (cfg : RecCfg) (b : Spec.WireBatch) (bs : Bytes)
    (h : Spec.batchBytes b = some bs) (hts : ∀ r ∈ b.records, r.wholeSecond b.maxTimestamp)
    (rest : Bytes) : readBatch cfg (bs ++ rest) = .ok (b.toRec bs, rest) :=
  Kio.readBatch_spec_partial Kio.float_sec cfg b bs h hts rest

/-- **what reading returns for every millisecond timestamp** (the exact content of known finding
    C18/I): for every reference-encoded batch whose record timestamps lie in the datetime range and
    whose seconds do not exceed the batch's max timestamp, every header field, offset, key, value and
    header is returned exactly as encoded and exactly the following bytes are left — and every record
    timestamp is *floored to whole seconds* (`toRecFloor`).  With whole-second timestamps this is
    `read_spec_partial`.  The float fact it rests on (`float_floor`: the seconds part of
    `fromtimestamp(ms / 1000)` is ⌊ms/1000⌋ for all ms up to year 9999) is proved, not assumed. -/
theorem read_spec_floor (cfg : RecCfg) (b : Spec.WireBatch) (bs : Bytes)
    (h : Spec.batchBytes b = some bs) (hts : ∀ r ∈ b.records, r.inRange b.maxTimestamp)
    (rest : Bytes) : readBatch cfg (bs ++ rest) = .ok (b.toRecFloor bs, rest) :=
  Kio.readBatch_floor cfg b bs h hts rest

/-- a batch is returned only when the magic byte is 2 -/
theorem magic (cfg : RecCfg) (bs : Bytes) (b : RecordBatch) (rest : Bytes)
    (h : readBatch cfg bs = .ok (b, rest)) : bs[16]? = some 2 :=
  Kio.readBatch_magic cfg bs b rest h

/-- **corruption**: changing any single byte (hence any single bit) from the CRC field to the
    end of a reference-encoded batch makes reading fail -/
theorem byte_corruption (cfg : RecCfg) (b : Spec.WireBatch) (bs : Bytes)
    (h : Spec.batchBytes b = some bs) (i : Nat) (h17 : 17 ≤ i) (hi : i < bs.length)
    (x : UInt8) (hx : x ≠ bs[i]) (rest : Bytes) :
    ∃ e, readBatch cfg (bs.set i x ++ rest) = .error e :=
  Kio.readBatch_byte_corruption cfg b bs h i h17 hi x hx rest

/-- the CRC argument: any single-byte change changes CRC-32C -/
theorem crc_byte_change (pre post : Bytes) (b b' : UInt8) (hb : b ≠ b') :
    Crc.crc32c (pre ++ b :: post) ≠ Crc.crc32c (pre ++ b' :: post) :=
  Crc.crc32c_byte_change pre post b b' hb

/-- **truncation**: every strict prefix of a reference-encoded batch makes reading fail
    (with the exact inner reads of the repaired reader; with the shipped non-exact reads a
    CRC-colliding truncation was accepted) -/
theorem truncation (b : Spec.WireBatch) (bs : Bytes) (h : Spec.batchBytes b = some bs)
    (k : Nat) (hk : k < bs.length) : ∃ e, readBatch RecCfg.repaired (bs.take k) = .error e :=
  Kio.readBatch_truncation b bs h k hk

/-- the negation of the full-strength timestamp claim, with a witness: wire timestamp 1 ms is
    read as 0 (known finding C18/I, `read_record` does `.replace(microsecond=0)`) -/
theorem timestamp_ms_lost_witness : recordTimestamp 1 = .ok 0 ∧ recordTimestamp 1999 = .ok 1000000 := by
  constructor <;> decide +kernel

theorem current_repaired : RecCfg.current = RecCfg.repaired := rfl

end Kio.C18
