import Kio.Model.ObjectModel
import Kio.Model.TablePreds
import Kio.Generated.Info
/-!
# C15 — entities are immutable, hashable value objects (partial: CPython object semantics modelled)
-/
namespace Kio.C15
open Kio

/-- the dataclass parameters that make instances value objects -/
def ValueParams (p : DCParams) : Prop := p.frozen = true ∧ p.eq = true ∧ p.unsafeHash = false

/-- **immutability**: under any sequence of operations the receiver's fields are unchanged -/
theorem immutable (p : DCParams) (hp : ValueParams p) (hasDict : Bool) (x : Obj) (ops : List Op) :
    Obj.run p hasDict x ops = x := by
  induction ops generalizing x with
  | nil => rfl
  | cons op ops ih =>
    have h1 : (x.step p hasDict op).1 = x := by
      cases op <;> simp [Obj.step, hp.1, hp.2.1]
    simp only [Obj.run, h1, ih]

/-- every mutating operation (assignment, assignment of a new attribute, deletion) raises -/
theorem mutation_rejected (p : DCParams) (hp : ValueParams p) (hasDict : Bool) (x : Obj) (op : Op)
    (hm : op.mutating = true) : (x.step p hasDict op).2 = .err .frozenInstance := by
  cases op <;> simp [Op.mutating] at hm <;> simp [Obj.step, hp.1]

/-- hashing succeeds and is a function of the field tuple only, hence consistent with equality
    on structurally equal field tuples -/
theorem hash_consistent (p : DCParams) (hp : ValueParams p) (hasDict : Bool) (x y : Obj)
    (h : x.slots = y.slots) : (x.step p hasDict .hash).2 = (y.step p hasDict .hash).2 := by
  simp [Obj.step, hp.1, hp.2.1, h]

theorem hashable (p : DCParams) (hp : ValueParams p) (hasDict : Bool) (x : Obj) :
    (x.step p hasDict .hash).2 = .hashOf x.slots := by
  simp [Obj.step, hp.1, hp.2.1]

/-- copying, `replace` with no changes, and pickling return an object with the same class and
    fields, and leave the original unchanged -/
theorem copies_equal (p : DCParams) (hasDict : Bool) (x : Obj) (op : Op)
    (h : op = .copy ∨ op = .deepcopy ∨ op = .pickle ∨ op = .replace []) :
    (x.step p hasDict op) = (x, .obj x) := by
  rcases h with rfl | rfl | rfl | rfl <;> simp [Obj.step]

/-- without `__dict__` (slots) a frozen instance also rejects new attribute names, and even a
    non-frozen slotted instance has no per-instance dictionary to put them in -/
theorem no_new_attributes (p : DCParams) (x : Obj) (v : Value) :
    (x.step p false (.setNew v)).2 ≠ .unit := by
  simp only [Obj.step]
  split <;> simp

set_option maxRecDepth 1000000 in
/-- every shipped class (regenerated) has the parameters and field types of a value object:
    frozen, eq, slots, no unsafe_hash, `__slots__` present, no `__dict__`, hashable, every field
    of an immutable type and taking part in comparison -/
theorem shipped_params : Generated.tables.c15 = true := by decide +kernel

/-- the same for the four record classes of `kio.records.schema` (regenerated descriptors) -/
theorem shipped_record_params :
    Generated.recordClasses.length = 4 ∧ Generated.recordClasses.all ClassInfo.valueObject = true := by
  decide +kernel

end Kio.C15
