import Kio.Model.Phantom
import Kio.Generated.Bounds
import Kio.Props.C11
/-!
# C12 — primitive value types denote exactly their wire domains
-/
namespace Kio.C12
open Kio

/-- the bounds in the source are the documented ones (regenerated, kernel-checked) -/
theorem bounds_eq_spec :
    Generated.bounds.intervals = Spec.bounds.intervals ∧ Generated.bounds.td32 = Spec.bounds.td32
    ∧ Generated.bounds.td64 = Spec.bounds.td64 := by decide +kernel

/-- membership in an integer type ⇔ the value is an `int` (or `bool`) in the closed range -/
theorem int_member_iff (b : Bounds) (t : PType) (lo hi : Int) (hr : b.range t = some (lo, hi))
    (ht : t ≠ .f64 ∧ t ≠ .i32Timedelta ∧ t ≠ .i64Timedelta ∧ t ≠ .tzAware ∧ t ≠ .tzAwareMicros ∧ t ≠ .records)
    (v : PyVal) : isInstance b t v = true ↔ ∃ i, v.asInt? = some i ∧ lo ≤ i ∧ i ≤ hi := by
  obtain ⟨h1, h2, h3, h4, h5, h6⟩ := ht
  cases t <;> simp_all [isInstance] <;>
    (cases hv : v.asInt? <;> simp [hv])

/-- the constructor returns its argument unchanged exactly for members, `TypeError` otherwise -/
theorem construct_law (b : Bounds) (t : PType) (v : PyVal) :
    (construct b t v = .same ↔ isInstance b t v = true) ∧
    (construct b t v = .typeError ↔ isInstance b t v = false) := by
  unfold construct
  cases isInstance b t v <;> simp

/-- f64 ⇔ a finite float; non-finite floats, ints, strings … are rejected -/
theorem f64_member_iff (b : Bounds) (v : PyVal) :
    isInstance b .f64 v = true ↔ ∃ bits, v = .float bits ∧ floatFinite bits = true := by
  cases v <;> simp [isInstance]

/-- durations ⇔ closed µs ranges -/
theorem td32_member_iff (b : Bounds) (v : PyVal) :
    isInstance b .i32Timedelta v = true ↔ ∃ us, v = .timedelta us ∧ b.td32.1 ≤ us ∧ us ≤ b.td32.2 := by
  cases v <;> simp [isInstance]
theorem td64_member_iff (b : Bounds) (v : PyVal) :
    isInstance b .i64Timedelta v = true ↔ ∃ us, v = .timedelta us ∧ b.td64.1 ≤ us ∧ us ≤ b.td64.2 := by
  cases v <;> simp [isInstance]

/-- TZAware ⇔ aware ∧ non-negative ∧ millisecond precision (naive datetimes are rejected) -/
theorem tzaware_member_iff (b : Bounds) (v : PyVal) :
    isInstance b .tzAware v = true ↔ ∃ us, v = .datetime true us ∧ us % 1000 = 0 ∧ 0 ≤ us := by
  cases v with
  | datetime aware us => cases aware <;> simp [isInstance]
  | _ => simp [isInstance]

/-- as shipped the predicate demanded whole seconds (`microsecond == 0`): 1 ms was rejected -/
theorem shipped_rejected_milliseconds : ((1000 : Int) % 1000000 = 0) = False ∧ ((1000 : Int) % 1000 = 0) = True := by
  constructor <;> simp

/-- the integer types nest by range -/
theorem nesting (v : PyVal) :
    (isInstance Spec.bounds .i8 v = true → isInstance Spec.bounds .i16 v = true) ∧
    (isInstance Spec.bounds .i16 v = true → isInstance Spec.bounds .i32 v = true) ∧
    (isInstance Spec.bounds .i32 v = true → isInstance Spec.bounds .i64 v = true) ∧
    (isInstance Spec.bounds .u8 v = true → isInstance Spec.bounds .u16 v = true) ∧
    (isInstance Spec.bounds .u16 v = true → isInstance Spec.bounds .u32 v = true) ∧
    (isInstance Spec.bounds .u32 v = true → isInstance Spec.bounds .u64 v = true) := by
  have hr8 : Spec.bounds.range .i8 = some (-2^7, 2^7 - 1) := by decide
  have hr16 : Spec.bounds.range .i16 = some (-2^15, 2^15 - 1) := by decide
  have hr32 : Spec.bounds.range .i32 = some (-2^31, 2^31 - 1) := by decide
  have hr64 : Spec.bounds.range .i64 = some (-2^63, 2^63 - 1) := by decide
  have hu8 : Spec.bounds.range .u8 = some (0, 2^8 - 1) := by decide
  have hu16 : Spec.bounds.range .u16 = some (0, 2^16 - 1) := by decide
  have hu32 : Spec.bounds.range .u32 = some (0, 2^32 - 1) := by decide
  have hu64 : Spec.bounds.range .u64 = some (0, 2^64 - 1) := by decide
  cases hv : v.asInt? with
  | none => simp [isInstance, hv]
  | some i =>
    simp only [isInstance, hv, hr8, hr16, hr32, hr64, hu8, hu16, hu32, hu64, decide_eq_true_eq]
    refine ⟨?_, ?_, ?_, ?_, ?_, ?_⟩ <;> intro h <;> omega

/-- every member of a fixed-width integer type is accepted by the corresponding writer and
    reads back equal -/
theorem int_writer_accepts (w : Nat) (hw : 0 < w) (signed : Bool) (i : Int)
    (h : intLo w signed ≤ i ∧ i ≤ intHi w signed) (rest : Bytes) :
    ∃ bs, encIntN w signed i = .ok bs ∧ decIntN w signed (bs ++ rest) = .ok (i, rest) := by
  have : encIntN w signed i = .ok (natBE w (i % 2 ^ (8 * w)).toNat) := by
    unfold encIntN; rw [if_pos h]
  exact ⟨_, this, Kio.int_roundtrip w hw signed i _ rest this⟩

/-- the ranges of the fixed-width types are exactly the writers' domains -/
theorem int_ranges_are_writer_domains :
    Spec.bounds.range .i8 = some (intLo 1 true, intHi 1 true) ∧
    Spec.bounds.range .i16 = some (intLo 2 true, intHi 2 true) ∧
    Spec.bounds.range .i32 = some (intLo 4 true, intHi 4 true) ∧
    Spec.bounds.range .i64 = some (intLo 8 true, intHi 8 true) ∧
    Spec.bounds.range .u8 = some (intLo 1 false, intHi 1 false) ∧
    Spec.bounds.range .u16 = some (intLo 2 false, intHi 2 false) ∧
    Spec.bounds.range .u32 = some (intLo 4 false, intHi 4 false) ∧
    Spec.bounds.range .u64 = some (intLo 8 false, intHi 8 false) := by decide

/-- every `i32Timedelta` / `i64Timedelta` member is accepted by its writer (exact arithmetic)
    and, when it is a whole number of milliseconds, reads back equal -/
theorem td_writer_accepts (w : Nat) (hw : w = 4 ∨ w = 8) (us : Int)
    (hm : if w = 4 then Spec.bounds.td32.1 ≤ us ∧ us ≤ Spec.bounds.td32.2
          else Spec.bounds.td64.1 ≤ us ∧ us ≤ Spec.bounds.td64.2) :
    ∃ bs, writeTimedelta TimeCfg.repaired w (.timedelta us) = .ok bs := by
  have hq : intLo w true ≤ msOfMicrosExact us ∧ msOfMicrosExact us ≤ intHi w true := by
    unfold msOfMicrosExact
    rcases hw with rfl | rfl
    · simp only [if_true, Spec.bounds] at hm
      simp only [intLo, intHi, if_true]
      split <;> omega
    · simp only [show ¬ ((8:Nat) = 4) by omega, if_false, Spec.bounds] at hm
      simp only [intLo, intHi, if_true]
      split <;> omega
  refine ⟨natBE w (msOfMicrosExact us % 2 ^ (8 * w)).toNat, ?_⟩
  simp only [writeTimedelta, msOfTimedelta, TimeCfg.repaired, if_true]
  unfold encIntN; rw [if_pos hq]

/-- every TZAware member is written and reads back equal (from C11) -/
theorem tzaware_writer_accepts (us : Int) (h1000 : us % 1000 = 0) (h0 : 0 ≤ us)
    (h1 : us ≤ 253402300799999000) (rest : Bytes) :
    ∃ bs, writeDatetimeI64 (.datetime us) = .ok bs ∧
      readDatetimeI64 TimeCfg.repaired (bs ++ rest) = .ok (.datetime us, rest) := by
  have hfx : msOfMicrosFloat us = us / 1000 := by
    have := ms_exact (us / 1000) (by rw [abs_lt]; constructor <;> omega)
    have hus : us / 1000 * 1000 = us := by omega
    rwa [hus] at this
  have hr : intLo 8 true ≤ us / 1000 ∧ us / 1000 ≤ intHi 8 true := by
    simp only [intLo, intHi, if_true]; omega
  have he : writeDatetimeI64 (.datetime us) = .ok (natBE 8 ((us / 1000) % 2 ^ (8 * 8)).toNat) := by
    simp only [writeDatetimeI64, hfx]; unfold encIntN; rw [if_pos hr]
  exact ⟨_, he, (C11.datetime_roundtrip us h1000 h0 h1 _ rest he).1⟩

end Kio.C12
