import Kio.Proofs.Prefix
import Kio.Proofs.Float
import Kio.Model.Current
import Kio.Generated.All
/-!
# C06 — truncated input is always reported, never decoded to a value
-/
namespace Kio.C06
open Kio

theorem float_exact : FloatExact := by
  intro k h0 h1
  apply ms_exact
  rw [abs_lt]
  constructor <;> omega

/-- **C06**: for every coherent class, every encodable well-typed instance and every cut
    position `k < len`, decoding the prefix raises `BufferUnderflow` -/
theorem prefix_underflow (env : Env) (ht : env.time = TimeCfg.repaired) (s : Schema)
    (hwf : s.wf env = true) (v : Value) (hv : s.valueOk env v = true) (bs : Bytes)
    (he : enc env s v = .ok bs) (k : Nat) (hk : k < bs.length) :
    dec env s (bs.take k) = .error .underflow := by
  obtain ⟨hr, hw⟩ := Kio.wf_buildable env s hwf
  unfold enc at he; rw [hw] at he
  unfold dec; rw [hr]
  exact Kio.Schema.prefix_underflow env ht float_exact s v bs hwf hv he k hk

set_option maxRecDepth 100000 in
theorem shipped_coherent :
    allOk (Schema.wf (Env.current Generated.errorCodes)) Generated.allClasses = true := by
  decide +kernel

end Kio.C06
