import Kio.Model.Schema
/-!
# The Kafka wire format, stated directly (DESIGN §6.2)

Independent of the Impl layer: no dispatch tables, no plans, no staging buffer.  Written from
the Kafka protocol guide in the order of C02's statement.  `none` = the value has no encoding
in this schema (out of range, null where the wire has no null, sub-millisecond time).
-/
namespace Kio.Spec
open Kio

/-- two's-complement big-endian, `w` bytes -/
def intBE (w : Nat) (signed : Bool) (v : Int) : Option Bytes :=
  let lo : Int := if signed then -(2 ^ (8 * w - 1)) else 0
  let hi : Int := if signed then 2 ^ (8 * w - 1) else 2 ^ (8 * w)
  if lo ≤ v ∧ v < hi then
    let u := (if v < 0 then v + 2 ^ (8 * w) else v).toNat
    some ((List.range w).map (fun i => (u / 256 ^ (w - 1 - i) % 256).toUInt8))
  else none

/-- unsigned varint: 7 bits per byte, least significant group first, high bit = "more" -/
def uvarint (n : Nat) : Bytes :=
  if n < 128 then [n.toUInt8] else (128 + n % 128).toUInt8 :: uvarint (n / 128)
termination_by n
decreasing_by omega

/-- length-prefixed payload: compact = uvarint(len+1), legacy = signed int of `w` bytes -/
def lenPrefixed (flex : Bool) (w : Nat) (p : Bytes) : Option Bytes :=
  if flex then (if p.length + 1 < 2 ^ 35 then some (uvarint (p.length + 1) ++ p) else none)
  else (intBE w true p.length).map (· ++ p)

/-- the null form of a length-prefixed item -/
def nullLen (flex : Bool) (w : Nat) : Option Bytes :=
  if flex then some (uvarint 0) else intBE w true (-1)

/-- a primitive of Kafka type `k`; `nullable` = the schema allows null here -/
def prim (k : KType) (flex nullable : Bool) : Value → Option Bytes
  | .int i => match k with
    | .int8 => intBE 1 true i | .int16 => intBE 2 true i | .int32 => intBE 4 true i
    | .int64 => intBE 8 true i | .uint8 => intBE 1 false i | .uint16 => intBE 2 false i
    | .uint32 => intBE 4 false i | .uint64 => intBE 8 false i
    | .errorCode => intBE 2 true i
    | _ => none
  | .bool b => match k with | .bool => some [if b then 1 else 0] | _ => none
  | .float bits => match k with
    | .float64 => if bits < 2 ^ 64 then intBE 8 false bits else none
    | _ => none
  | .str p => match k with | .string => lenPrefixed flex 2 p | _ => none
  | .bytes p => match k with
    | .bytes | .records => lenPrefixed flex 4 p
    | _ => none
  | .uuid b => match k with | .uuid => if b.length = 16 then some b else none | _ => none
  | .timedelta us => match k with
    | .timedeltaI32 => if us % 1000 = 0 then intBE 4 true (us / 1000) else none
    | .timedeltaI64 => if us % 1000 = 0 then intBE 8 true (us / 1000) else none
    | _ => none
  | .datetime us => match k with
    | .datetimeI64 => if us % 1000 = 0 ∧ 0 ≤ us then intBE 8 true (us / 1000) else none
    | _ => none
  | .none => match k with
    | .uuid => some (List.replicate 16 0)
    | .string => if nullable then nullLen flex 2 else none
    | .bytes | .records => if nullable then nullLen flex 4 else none
    | .datetimeI64 => if nullable then intBE 8 true (-1) else none
    | _ => none
  | _ => none

def concatAll (e : Value → Option Bytes) : List Value → Option Bytes
  | [] => some []
  | v :: vs => do let a ← e v; let b ← concatAll e vs; pure (a ++ b)

/-- array: count prefix (legacy int32 / compact uvarint(n+1)), null form when allowed -/
def array (flex nullable : Bool) (e : Value → Option Bytes) : Value → Option Bytes
  | .none => if nullable then nullLen flex 4 else none
  | .tuple vs => do
    let body ← concatAll e vs
    if flex then (if vs.length + 1 < 2 ^ 35 then some (uvarint (vs.length + 1) ++ body) else none)
    else (intBE 4 true vs.length).map (· ++ body)
  | _ => none

/-- one entry of the tagged section -/
def taggedEntry (tag : Nat) (payload : Bytes) : Bytes :=
  uvarint tag ++ uvarint payload.length ++ payload

def insertAsc (x : Nat × Bytes) : List (Nat × Bytes) → List (Nat × Bytes)
  | [] => [x]
  | y :: ys => if x.1 ≤ y.1 then x :: y :: ys else y :: insertAsc x ys

def ascending : List (Nat × Bytes) → List (Nat × Bytes)
  | [] => []
  | x :: xs => insertAsc x (ascending xs)

/-- zero value of a primitive Python type (Kafka's implicit default) -/
def zeroOf (l : PyLeaf) : Option Value :=
  match l.base with
  | .i8 | .i16 | .i32 | .i64 | .u8 | .u16 | .u32 | .u64 => some (.int 0)
  | .f64 => some (.float 0)
  | .str => some (.str [])
  | .bytes => some (.bytes [])
  | .i32Timedelta | .i64Timedelta => some (.timedelta 0)
  | .tzAware => some (.datetime 0)
  | _ => none

mutual
/-- the default a tagged field takes when absent from the wire -/
def defaultOfField : Field → Option Value
  | .mk m sh => match m.dflt with
    | .val v => some v
    | .missing => defaultOfShape sh
    | .unrepresentable => none
def defaultOfShape : Shape → Option Value
  | .prim l false => zeroOf l
  | .ent s false => defaultOfSchema s
  | _ => none
def defaultOfSchema : Schema → Option Value
  | .mk _ _ _ fs => (defaultsOfFields fs).map .entity
def defaultsOfFields : List Field → Option (List Value)
  | [] => some []
  | f :: fs => do let v ← defaultOfField f; let vs ← defaultsOfFields fs; pure (v :: vs)
end

mutual
/-- a struct: untagged fields in declaration order, then (flexible versions) the tagged section -/
def struct : Schema → Value → Option Bytes
  | .mk _ flex rh fs, .entity vs => do
    let body ← untagged flex rh fs vs
    if flex then do
      let entries ← taggedEntries flex fs vs
      let sorted := ascending entries
      pure (body ++ uvarint sorted.length ++ (sorted.map (·.2)).flatten)
    else pure body
  | _, _ => none
def untagged (flex rh : Bool) : List Field → List Value → Option Bytes
  | [], [] => some []
  | f :: fs, v :: vs =>
    match f with
    | .mk m sh =>
      if m.tag.isSome then untagged flex rh fs vs
      else do
        let a ← (if rh && m.isClientId then prim .string false true v else fieldBytes flex false m sh v)
        let b ← untagged flex rh fs vs
        pure (a ++ b)
  | _, _ => none
/-- the non-default tagged fields, each as (tag, tag ++ size ++ payload) -/
def taggedEntries (flex : Bool) : List Field → List Value → Option (List (Nat × Bytes))
  | [], [] => some []
  | f :: fs, v :: vs =>
    match f with
    | .mk m sh =>
      match m.tag with
      | none => taggedEntries flex fs vs
      | some t => do
        let d ← defaultOfField (.mk m sh)
        if v.pyEq d then taggedEntries flex fs vs
        else do
          let p ← fieldBytes flex true m sh v
          let rest ← taggedEntries flex fs vs
          if 0 ≤ t ∧ p.length < 2 ^ 35 then pure ((t.toNat, taggedEntry t.toNat p) :: rest) else none
  | _, _ => none
/-- one field value; `tagged` fields carry no null form of their own (absence is their null) -/
def fieldBytes (flex tagged : Bool) (m : FieldMeta) : Shape → Value → Option Bytes
  | .prim _ o, v => match m.kafkaType with
    | some k => prim k flex (o && !tagged) v
    | none => none
  | .primArr _ e a, v => match m.kafkaType with
    | some k => array flex (a && !tagged) (prim k flex e) v
    | none => none
  | .ent s o, v =>
    if o && !tagged then
      match v with
      | .none => some [0xFF]
      | v => (struct s v).map (fun b => 1 :: b)
    else struct s v
  | .entArr s a, v => array flex (a && !tagged) (struct s) v
  | .bad, _ => none
end

/-- the Kafka encoding of instance `v` of class `s` -/
def enc (s : Schema) (v : Value) : Option Bytes := struct s v

end Kio.Spec
