import Kio.Spec.Foreign
/-!
# Conforming encodings, relationally (DESIGN §6.3)

`Spec.encForeign` describes what a foreign peer may send by ONE pattern applied uniformly at every
nesting level.  A real peer chooses independently at every occurrence of every structure: it may
send a default explicitly in one array element and omit it in the next, put unknown tagged entries
in one nested structure only, and use different unknown tags at different levels.

`Spec.Conforms s v bs` : `bs` is an encoding of instance `v` of class `s` that a Kafka-conforming
peer may send.  Everything deterministic (primitives, arrays of primitives, length prefixes, null
forms, the shape of the tagged section) is exactly as in `Spec.structF`; the free choices are made
per occurrence.
-/
namespace Kio.Spec
open Kio

/-- the tags declared by the fields of ONE structure (not of the nested ones) -/
def declaredTags : List Field → List Nat
  | [] => []
  | .mk m _ :: fs =>
    match m.tag with
    | some t => t.toNat :: declaredTags fs
    | none => declaredTags fs

/-- the count prefix of an array of `n` elements, as `Spec.array` computes it -/
def countPrefix (flex : Bool) (n : Nat) : Option Bytes :=
  if flex then (if n + 1 < 2 ^ 35 then some (uvarint (n + 1)) else none)
  else intBE 4 true n

mutual
/-- one occurrence of a structure -/
inductive Conforms : Schema → Value → Bytes → Prop
  /-- a non-flexible version has no tagged section -/
  | legacy {n : Nat} {rh : Bool} {fs : List Field} {vs : List Value} {body : Bytes}
      (hbody : ConformsUntagged false rh fs vs body) :
      Conforms (.mk n false rh fs) (.entity vs) body
  /-- a flexible version: the untagged fields, then the tagged section — the `known` entries
      (tagged fields of this class that are sent) and `unknown` ones (tags this class does not
      declare, chosen for THIS occurrence), together in strictly ascending tag order -/
  | flexible {n : Nat} {rh : Bool} {fs : List Field} {vs : List Value} {body : Bytes}
      {known unknown entries : List (Nat × Bytes)}
      (hbody : ConformsUntagged true rh fs vs body)
      (hknown : ConformsTagged true fs vs known)
      (hunknown : ∀ x ∈ unknown, x.1 < 2 ^ 35 ∧ x.2.length < 2 ^ 35 ∧ x.1 ∉ declaredTags fs)
      (hperm : entries.Perm (known ++ unknown))
      (hasc : (entries.map (·.1)).Pairwise (· < ·))
      (hcount : entries.length < 2 ^ 35) :
      Conforms (.mk n true rh fs) (.entity vs)
        (body ++ uvarint entries.length ++ (entries.map (fun x => taggedEntry x.1 x.2)).flatten)

/-- the untagged fields, in declaration order (`client_id` of a request header is always a
    nullable legacy string) -/
inductive ConformsUntagged : Bool → Bool → List Field → List Value → Bytes → Prop
  | nil {flex rh : Bool} : ConformsUntagged flex rh [] [] []
  | tagged {flex rh : Bool} {m : FieldMeta} {sh : Shape} {fs : List Field} {v : Value}
      {vs : List Value} {b : Bytes}
      (htag : m.tag.isSome = true)
      (hrest : ConformsUntagged flex rh fs vs b) :
      ConformsUntagged flex rh (.mk m sh :: fs) (v :: vs) b
  | clientId {flex rh : Bool} {m : FieldMeta} {sh : Shape} {fs : List Field} {v : Value}
      {vs : List Value} {a b : Bytes}
      (htag : m.tag.isSome = false)
      (hcid : (rh && m.isClientId) = true)
      (ha : prim .string false true v = some a)
      (hrest : ConformsUntagged flex rh fs vs b) :
      ConformsUntagged flex rh (.mk m sh :: fs) (v :: vs) (a ++ b)
  | field {flex rh : Bool} {m : FieldMeta} {sh : Shape} {fs : List Field} {v : Value}
      {vs : List Value} {a b : Bytes}
      (htag : m.tag.isSome = false)
      (hcid : (rh && m.isClientId) = false)
      (ha : ConformsField flex false m sh v a)
      (hrest : ConformsUntagged flex rh fs vs b) :
      ConformsUntagged flex rh (.mk m sh :: fs) (v :: vs) (a ++ b)

/-- the tagged fields of this class that are sent, in field order, as (tag, payload) -/
inductive ConformsTagged : Bool → List Field → List Value → List (Nat × Bytes) → Prop
  | nil {flex : Bool} : ConformsTagged flex [] [] []
  | untagged {flex : Bool} {m : FieldMeta} {sh : Shape} {fs : List Field} {v : Value}
      {vs : List Value} {es : List (Nat × Bytes)}
      (htag : m.tag = none)
      (hrest : ConformsTagged flex fs vs es) :
      ConformsTagged flex (.mk m sh :: fs) (v :: vs) es
  /-- a tagged field may be omitted exactly when its value equals its default -/
  | omitted {flex : Bool} {m : FieldMeta} {sh : Shape} {fs : List Field} {v : Value}
      {vs : List Value} {es : List (Nat × Bytes)} {t : Int} {d : Value}
      (htag : m.tag = some t)
      (hd : defaultOfField (.mk m sh) = some d)
      (heq : v.pyEq d = true)
      (hrest : ConformsTagged flex fs vs es) :
      ConformsTagged flex (.mk m sh :: fs) (v :: vs) es
  /-- … and may always be sent (also when it equals the default) -/
  | present {flex : Bool} {m : FieldMeta} {sh : Shape} {fs : List Field} {v : Value}
      {vs : List Value} {es : List (Nat × Bytes)} {t : Int} {p : Bytes}
      (htag : m.tag = some t)
      (ht : 0 ≤ t)
      (hp : ConformsField flex true m sh v p)
      (hlen : p.length < 2 ^ 35)
      (hrest : ConformsTagged flex fs vs es) :
      ConformsTagged flex (.mk m sh :: fs) (v :: vs) ((t.toNat, p) :: es)

/-- one field value (`tagged`: inside the tagged section) -/
inductive ConformsField : Bool → Bool → FieldMeta → Shape → Value → Bytes → Prop
  | prim {flex tagged : Bool} {m : FieldMeta} {l : PyLeaf} {o : Bool} {k : KType} {v : Value}
      {b : Bytes}
      (hk : m.kafkaType = some k)
      (hb : Spec.prim k flex o v = some b) :
      ConformsField flex tagged m (.prim l o) v b
  | primArr {flex tagged : Bool} {m : FieldMeta} {l : PyLeaf} {e a : Bool} {k : KType} {v : Value}
      {b : Bytes}
      (hk : m.kafkaType = some k)
      (hb : Spec.array flex (a && !tagged) (Spec.prim k flex e) v = some b) :
      ConformsField flex tagged m (.primArr l e a) v b
  | entNull {flex tagged : Bool} {m : FieldMeta} {s : Schema} {o : Bool}
      (ho : (o && !tagged) = true) :
      ConformsField flex tagged m (.ent s o) .none [0xFF]
  | entSome {flex tagged : Bool} {m : FieldMeta} {s : Schema} {o : Bool} {v : Value} {b : Bytes}
      (ho : (o && !tagged) = true)
      (hb : Conforms s v b) :
      ConformsField flex tagged m (.ent s o) v (1 :: b)
  | ent {flex tagged : Bool} {m : FieldMeta} {s : Schema} {o : Bool} {v : Value} {b : Bytes}
      (ho : (o && !tagged) = false)
      (hb : Conforms s v b) :
      ConformsField flex tagged m (.ent s o) v b
  | entArrNull {flex tagged : Bool} {m : FieldMeta} {s : Schema} {a : Bool} {b : Bytes}
      (ha : (a && !tagged) = true)
      (hb : nullLen flex 4 = some b) :
      ConformsField flex tagged m (.entArr s a) .none b
  /-- an array of structures: the count, then the elements, each conforming independently -/
  | entArr {flex tagged : Bool} {m : FieldMeta} {s : Schema} {a : Bool} {vs : List Value}
      {pre : Bytes} {bss : List Bytes}
      (hpre : countPrefix flex vs.length = some pre)
      (hbs : ConformsMany s vs bss) :
      ConformsField flex tagged m (.entArr s a) (.tuple vs) (pre ++ bss.flatten)

/-- the elements of an array of structures, one encoding per element -/
inductive ConformsMany : Schema → List Value → List Bytes → Prop
  | nil {s : Schema} : ConformsMany s [] []
  | cons {s : Schema} {v : Value} {vs : List Value} {b : Bytes} {bs : List Bytes}
      (hb : Conforms s v b)
      (hbs : ConformsMany s vs bs) :
      ConformsMany s (v :: vs) (b :: bs)
end

/-! ### side condition of `encForeign_conforms`

`Spec.encForeign` sorts whatever entries it is given; the result is a legal tagged section only if
no structure declares the same tag twice (part of `Schema.wf`). -/

mutual
/-- no class reachable from `s` declares the same tag for two of its fields -/
def Schema.distinctTags : Schema → Bool
  | .mk _ _ _ fs => decide (declaredTags fs).Nodup && Fields.distinctTags fs
def Fields.distinctTags : List Field → Bool
  | [] => true
  | f :: fs => Field.distinctTags f && Fields.distinctTags fs
def Field.distinctTags : Field → Bool
  | .mk _ sh => Shape.distinctTags sh
def Shape.distinctTags : Shape → Bool
  | .ent s _ => Schema.distinctTags s
  | .entArr s _ => Schema.distinctTags s
  | _ => true
end

end Kio.Spec
