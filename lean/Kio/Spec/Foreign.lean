import Kio.Spec.Wire
/-!
# Encodings a conforming *foreign* peer may send (DESIGN §6.3)

Same format as `Spec.struct`, but the peer is free in two ways the kio writer is not:
* it may send a tagged field explicitly even when its value is the default (`sendDefaults`),
  including an explicit null for a nullable tagged field;
* it may send tagged fields this schema version does not know (`unknown`: tag and raw payload),
  at every nesting level, in ascending tag order together with the known ones.
-/
namespace Kio.Spec
open Kio

structure ForeignPat where
  sendDefaults : Bool
  unknown : List (Nat × Bytes)     -- (tag, payload)
deriving Repr

def unknownEntries (pat : ForeignPat) : List (Nat × Bytes) :=
  pat.unknown.map (fun (t, p) => (t, taggedEntry t p))

mutual
def structF (pat : ForeignPat) : Schema → Value → Option Bytes
  | .mk _ flex rh fs, .entity vs => do
    let body ← untaggedF pat flex rh fs vs
    if flex then do
      let entries ← taggedEntriesF pat flex fs vs
      let sorted := ascending (entries ++ unknownEntries pat)
      -- the count is an unsigned varint of at most five bytes
      if sorted.length < 2 ^ 35 then pure (body ++ uvarint sorted.length ++ (sorted.map (·.2)).flatten)
      else none
    else pure body
  | _, _ => none
def untaggedF (pat : ForeignPat) (flex rh : Bool) : List Field → List Value → Option Bytes
  | [], [] => some []
  | f :: fs, v :: vs =>
    match f with
    | .mk m sh =>
      if m.tag.isSome then untaggedF pat flex rh fs vs
      else do
        let a ← (if rh && m.isClientId then prim .string false true v else fieldBytesF pat flex false m sh v)
        let b ← untaggedF pat flex rh fs vs
        pure (a ++ b)
  | _, _ => none
def taggedEntriesF (pat : ForeignPat) (flex : Bool) : List Field → List Value → Option (List (Nat × Bytes))
  | [], [] => some []
  | f :: fs, v :: vs =>
    match f with
    | .mk m sh =>
      match m.tag with
      | none => taggedEntriesF pat flex fs vs
      | some t => do
        let d ← defaultOfField (.mk m sh)
        if v.pyEq d && !pat.sendDefaults then taggedEntriesF pat flex fs vs
        else do
          let p ← fieldBytesF pat flex true m sh v
          let rest ← taggedEntriesF pat flex fs vs
          if 0 ≤ t ∧ p.length < 2 ^ 35 then pure ((t.toNat, taggedEntry t.toNat p) :: rest) else none
  | _, _ => none
/-- a foreign peer encodes a nullable tagged primitive with its null form when it sends it -/
def fieldBytesF (pat : ForeignPat) (flex tagged : Bool) (m : FieldMeta) : Shape → Value → Option Bytes
  | .prim _ o, v => match m.kafkaType with
    | some k => prim k flex o v
    | none => none
  | .primArr _ e a, v => match m.kafkaType with
    | some k => array flex (a && !tagged) (prim k flex e) v
    | none => none
  | .ent s o, v =>
    if o && !tagged then
      match v with
      | .none => some [0xFF]
      | v => (structF pat s v).map (fun b => 1 :: b)
    else structF pat s v
  | .entArr s a, v => array flex (a && !tagged) (structF pat s) v
  | .bad, _ => none
end

mutual
/-- no class reachable from `s` declares one of the tags `ts` -/
def Schema.avoids (ts : List Nat) : Schema → Bool
  | .mk _ _ _ fs => Fields.avoids ts fs
def Fields.avoids (ts : List Nat) : List Field → Bool
  | [] => true
  | f :: fs => Field.avoids ts f && Fields.avoids ts fs
def Field.avoids (ts : List Nat) : Field → Bool
  | .mk m sh => (match m.tag with | some t => !ts.contains t.toNat | none => true) && Shape.avoids ts sh
def Shape.avoids (ts : List Nat) : Shape → Bool
  | .ent s _ => Schema.avoids ts s
  | .entArr s _ => Schema.avoids ts s
  | _ => true
end

/-- the unknown entries are legal: pairwise distinct tags below 2^35, payloads below 2^35 bytes -/
def ForeignPat.ok (pat : ForeignPat) : Bool :=
  (pat.unknown.map (·.1)).Nodup && pat.unknown.all (fun (t, p) => t < 2 ^ 35 && p.length < 2 ^ 35)

def encForeign (pat : ForeignPat) (s : Schema) (v : Value) : Option Bytes := structF pat s v

end Kio.Spec
