import Kio.Spec.Conforms
/-!
# An executable generator of conforming encodings with per-occurrence choices (DESIGN §6.3)

`Spec.encForeign pat` applies ONE pattern uniformly at every nesting level.  `Spec.encMixed cfg seed`
makes the free choices of `Spec.Conforms` *independently at every occurrence of every structure*,
driven by a seed: every occurrence of a structure, every field and every array element gets its own
seed, derived from the seed of its parent and its position (`nextSeed`, a 64-bit LCG step).

At a structure occurrence with seed `sd`:
* every tagged field gets its own send/omit bit — it is omitted only when the relation allows it
  (its value `pyEq` its default) and the bit says "omit";
* between 0 and 2 unknown entries are added: tags from `cfg.tags` (starting at an offset given by
  the seed), keeping only tags `< 2^35`, not declared by THIS structure and pairwise distinct;
  payloads from `cfg.payloads` (by seed), keeping only payloads shorter than `2^35`.

Everything deterministic is exactly as in `Spec.structF`.  `Kio.Spec.encMixed_conforms`
(Kio/Proofs/ConformsMix.lean): every output is conforming.
-/
namespace Kio.Spec
open Kio

structure MixCfg where
  tags : List Nat          -- candidate unknown tags
  payloads : List Bytes    -- candidate unknown payloads
deriving Repr

/-- one step of a 64-bit linear congruential generator (Knuth's MMIX constants) -/
def nextSeed (s : Nat) : Nat := (s * 6364136223846793005 + 1442695040888963407) % 2 ^ 64

/-- a number below `n` from the high half of the seed (the low bits of an LCG are weak);
    `0` when `n = 0` -/
def seedPick (sd n : Nat) : Nat := if n = 0 then 0 else (sd / 2 ^ 33) % n

/-- the send/omit bit of a seed -/
def seedBit (sd : Nat) : Bool := seedPick sd 2 == 1

/-- the seed of the `i`-th child (`i = 0, 1, 2, …`) of an occurrence with seed `sd` -/
def childSeed (sd i : Nat) : Nat := nextSeed (sd + i)

/-- keep the candidates that are legal unknown tags of a structure declaring `declared`:
    below `2^35`, not declared, and not already kept -/
def keepTags (declared : List Nat) : List Nat → List Nat
  | [] => []
  | t :: ts =>
    let r := keepTags declared ts
    if t < 2 ^ 35 && !declared.contains t && !r.contains t then t :: r else r

/-- give the `i`-th kept tag the payload number `off + i` (cyclically) of `ps` -/
def attachPayloads (ps : List Bytes) : Nat → List Nat → List (Nat × Bytes)
  | _, [] => []
  | off, t :: ts => (t, ps.getD (off % ps.length) []) :: attachPayloads ps (off + 1) ts

/-- the unknown entries (tag, payload) of ONE occurrence of a structure declaring `declared` -/
def mixUnknown (cfg : MixCfg) (sd : Nat) (declared : List Nat) : List (Nat × Bytes) :=
  let count := seedPick sd 3
  let off := seedPick (nextSeed sd) cfg.tags.length
  let cands := (cfg.tags.drop off ++ cfg.tags.take off).take count
  let ps := cfg.payloads.filter (fun p => p.length < 2 ^ 35)
  attachPayloads ps (seedPick (nextSeed (nextSeed sd)) ps.length) (keepTags declared cands)

/-- (tag, payload) ↦ (tag, entry bytes), the form `taggedEntriesM` produces -/
def mixEntries (l : List (Nat × Bytes)) : List (Nat × Bytes) :=
  l.map (fun x => (x.1, taggedEntry x.1 x.2))

/-- `Spec.concatAll`, every element with its own seed -/
def concatAllM (e : Nat → Value → Option Bytes) : Nat → List Value → Option Bytes
  | _, [] => some []
  | sd, v :: vs => do
    let a ← e (childSeed sd 0) v
    let b ← concatAllM e (childSeed sd 1) vs
    pure (a ++ b)

/-- `Spec.array`, every element with its own seed -/
def arrayM (flex nullable : Bool) (e : Nat → Value → Option Bytes) (sd : Nat) : Value → Option Bytes
  | .none => if nullable then nullLen flex 4 else none
  | .tuple vs => do
    let body ← concatAllM e sd vs
    if flex then (if vs.length + 1 < 2 ^ 35 then some (uvarint (vs.length + 1) ++ body) else none)
    else (intBE 4 true vs.length).map (· ++ body)
  | _ => none

mutual
/-- one occurrence of a structure, with seed `sd` -/
def structM (cfg : MixCfg) (sd : Nat) : Schema → Value → Option Bytes
  | .mk _ flex rh fs, .entity vs => do
    let body ← untaggedM cfg (childSeed sd 0) flex rh fs vs
    if flex then do
      let entries ← taggedEntriesM cfg (childSeed sd 1) flex fs vs
      let sorted := ascending (entries ++ mixEntries (mixUnknown cfg (childSeed sd 2) (declaredTags fs)))
      -- the count is an unsigned varint of at most five bytes
      if sorted.length < 2 ^ 35 then pure (body ++ uvarint sorted.length ++ (sorted.map (·.2)).flatten)
      else none
    else pure body
  | _, _ => none
def untaggedM (cfg : MixCfg) (sd : Nat) (flex rh : Bool) : List Field → List Value → Option Bytes
  | [], [] => some []
  | f :: fs, v :: vs =>
    match f with
    | .mk m sh =>
      if m.tag.isSome then untaggedM cfg (childSeed sd 1) flex rh fs vs
      else do
        let a ← (if rh && m.isClientId then prim .string false true v
                 else fieldBytesM cfg (childSeed sd 0) flex false m sh v)
        let b ← untaggedM cfg (childSeed sd 1) flex rh fs vs
        pure (a ++ b)
  | _, _ => none
def taggedEntriesM (cfg : MixCfg) (sd : Nat) (flex : Bool) :
    List Field → List Value → Option (List (Nat × Bytes))
  | [], [] => some []
  | f :: fs, v :: vs =>
    match f with
    | .mk m sh =>
      match m.tag with
      | none => taggedEntriesM cfg (childSeed sd 1) flex fs vs
      | some t => do
        let d ← defaultOfField (.mk m sh)
        -- the send/omit decision of THIS field of THIS occurrence
        if v.pyEq d && !seedBit sd then taggedEntriesM cfg (childSeed sd 1) flex fs vs
        else do
          let p ← fieldBytesM cfg (childSeed sd 0) flex true m sh v
          let rest ← taggedEntriesM cfg (childSeed sd 1) flex fs vs
          if 0 ≤ t ∧ p.length < 2 ^ 35 then pure ((t.toNat, taggedEntry t.toNat p) :: rest) else none
  | _, _ => none
def fieldBytesM (cfg : MixCfg) (sd : Nat) (flex tagged : Bool) (m : FieldMeta) :
    Shape → Value → Option Bytes
  | .prim _ o, v => match m.kafkaType with
    | some k => prim k flex o v
    | none => none
  | .primArr _ e a, v => match m.kafkaType with
    | some k => array flex (a && !tagged) (prim k flex e) v
    | none => none
  | .ent s o, v =>
    if o && !tagged then
      match v with
      | .none => some [0xFF]
      | v => (structM cfg sd s v).map (fun b => 1 :: b)
    else structM cfg sd s v
  | .entArr s a, v => arrayM flex (a && !tagged) (fun sd' => structM cfg sd' s) sd v
  | .bad, _ => none
end

/-- a conforming encoding of `v : s` whose free choices are made per occurrence, from `seed` -/
def encMixed (cfg : MixCfg) (seed : Nat) (s : Schema) (v : Value) : Option Bytes :=
  structM cfg seed s v

end Kio.Spec
