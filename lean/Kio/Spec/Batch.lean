import Kio.Spec.Wire
import Kio.Model.Crc
/-!
# Record batch format v2, stated directly (DESIGN §6.17)

Layout (Kafka documentation, "Record Batch"):
```
baseOffset: int64 | batchLength: int32 | partitionLeaderEpoch: int32 | magic: int8 (= 2)
crc: uint32 (CRC-32C of everything after it) | attributes: int16 | lastOffsetDelta: int32
baseTimestamp: int64 | maxTimestamp: int64 | producerId: int64 | producerEpoch: int16
baseSequence: int32 | recordCount: int32 | records…
record: length: varint | attributes: int8 | timestampDelta: varlong | offsetDelta: varint
        keyLength: varint (-1 null) key | valueLen: varint (-1 null) value | headerCount: varint
        header: keyLength varint key | valueLength varint value
```
varint / varlong = zig-zag then base-128.  `batchLength` counts everything after itself.
-/
namespace Kio.Spec
open Kio

structure WireHeader where
  key : Option Bytes
  value : Option Bytes
deriving Repr, DecidableEq

structure WireRecord where
  attributes : Int
  timestampMs : Int
  offset : Int
  key : Option Bytes
  value : Option Bytes
  headers : List WireHeader
deriving Repr, DecidableEq

structure WireBatch where
  baseOffset : Int
  partitionLeaderEpoch : Int
  attributes : Int
  lastOffsetDelta : Int
  baseTimestamp : Int
  maxTimestamp : Int
  producerId : Int
  producerEpoch : Int
  baseSequence : Int
  records : List WireRecord
deriving Repr, DecidableEq

def zigzag (v : Int) : Nat := if 0 ≤ v then (2 * v).toNat else (-2 * v - 1).toNat
def unzigzag (n : Nat) : Int := if n % 2 = 0 then (n / 2 : Nat) else -((n / 2 : Nat) : Int) - 1

/-- signed varint of at most `bits` bits -/
def svar (bits : Nat) (v : Int) : Option Bytes :=
  if -(2 ^ (bits - 1)) ≤ v ∧ v < 2 ^ (bits - 1) then some (uvarint (zigzag v)) else none

def nbytes : Option Bytes → Option Bytes
  | none => svar 32 (-1)
  | some b => (svar 32 b.length).map (· ++ b)

def headerBytes (h : WireHeader) : Option Bytes := do
  let k ← nbytes h.key
  let v ← nbytes h.value
  pure (k ++ v)

def catOpt {α} (f : α → Option Bytes) : List α → Option Bytes
  | [] => some []
  | x :: xs => do let a ← f x; let b ← catOpt f xs; pure (a ++ b)

def recordBytes (baseTs baseOff : Int) (r : WireRecord) : Option Bytes := do
  let a ← intBE 1 true r.attributes
  let t ← svar 64 (r.timestampMs - baseTs)
  let o ← svar 32 (r.offset - baseOff)
  let k ← nbytes r.key
  let v ← nbytes r.value
  let n ← svar 32 r.headers.length
  let hs ← catOpt headerBytes r.headers
  let body := a ++ t ++ o ++ k ++ v ++ n ++ hs
  let l ← svar 32 body.length
  pure (l ++ body)

/-- the checksummed region: attributes … end -/
def coveredBytes (b : WireBatch) : Option Bytes := do
  let a ← intBE 2 true b.attributes
  let l ← intBE 4 true b.lastOffsetDelta
  let t0 ← intBE 8 true b.baseTimestamp
  let t1 ← intBE 8 true b.maxTimestamp
  let p ← intBE 8 true b.producerId
  let e ← intBE 2 true b.producerEpoch
  let s ← intBE 4 true b.baseSequence
  let n ← intBE 4 true b.records.length
  let rs ← catOpt (recordBytes b.baseTimestamp b.baseOffset) b.records
  pure (a ++ l ++ t0 ++ t1 ++ p ++ e ++ s ++ n ++ rs)

/-- a whole batch -/
def batchBytes (b : WireBatch) : Option Bytes := do
  let cov ← coveredBytes b
  let o ← intBE 8 true b.baseOffset
  let len ← intBE 4 true ((cov.length : Int) + 9)
  let ple ← intBE 4 true b.partitionLeaderEpoch
  let crc ← intBE 4 false (Crc.crc32c cov)
  pure (o ++ len ++ ple ++ [2] ++ crc ++ cov)

/-! ### independent decoder -/

def takeN (n : Nat) (bs : Bytes) : Option (Bytes × Bytes) :=
  if n ≤ bs.length then some (bs.take n, bs.drop n) else none

def beVal (bs : Bytes) : Nat := bs.foldl (fun a b => a * 256 + b.toNat) 0

def getInt (w : Nat) (signed : Bool) (bs : Bytes) : Option (Int × Bytes) := do
  let (raw, r) ← takeN w bs
  let u := beVal raw
  pure (if signed ∧ 2 ^ (8 * w - 1) ≤ u then (u : Int) - 2 ^ (8 * w) else u, r)

def getUvar : Nat → Bytes → Option (Nat × Bytes)
  | 0, _ => none
  | _+1, [] => none
  | k+1, b :: r =>
    if b.toNat < 128 then some (b.toNat, r)
    else (getUvar k r).map (fun (hi, r') => (b.toNat - 128 + 128 * hi, r'))

def getSvar (maxBytes : Nat) (bs : Bytes) : Option (Int × Bytes) :=
  (getUvar maxBytes bs).map (fun (n, r) => (unzigzag n, r))

def getNbytes (bs : Bytes) : Option (Option Bytes × Bytes) := do
  let (n, r) ← getSvar 5 bs
  if n = -1 then pure (none, r)
  else if n < 0 then none
  else do
    let (b, r) ← takeN n.toNat r
    pure (some b, r)

def getHeaders : Nat → Bytes → Option (List WireHeader × Bytes)
  | 0, bs => some ([], bs)
  | n+1, bs => do
    let (k, bs) ← getNbytes bs
    let (v, bs) ← getNbytes bs
    let (hs, bs) ← getHeaders n bs
    pure ({ key := k, value := v } :: hs, bs)

def getRecord (baseTs baseOff : Int) (bs : Bytes) : Option (WireRecord × Bytes) := do
  let (len, r) ← getSvar 5 bs
  if len < 0 then none else
  let (body, rest) ← takeN len.toNat r
  let (attrs, b) ← getInt 1 true body
  let (dt, b) ← getSvar 10 b
  let (doff, b) ← getSvar 5 b
  let (k, b) ← getNbytes b
  let (v, b) ← getNbytes b
  let (nh, b) ← getSvar 5 b
  if nh < 0 then none else
  let (hs, b) ← getHeaders nh.toNat b
  if b ≠ [] then none else
  pure ({ attributes := attrs, timestampMs := baseTs + dt, offset := baseOff + doff,
          key := k, value := v, headers := hs }, rest)

def getRecords (baseTs baseOff : Int) : Nat → Bytes → Option (List WireRecord × Bytes)
  | 0, bs => some ([], bs)
  | n+1, bs => do
    let (r, bs) ← getRecord baseTs baseOff bs
    let (rs, bs) ← getRecords baseTs baseOff n bs
    pure (r :: rs, bs)

/-- decode exactly one batch occupying all of `bs`; checks magic, length and checksum -/
def decBatch (bs : Bytes) : Option WireBatch := do
  let (baseOffset, r) ← getInt 8 true bs
  let (len, r) ← getInt 4 true r
  if len ≠ (r.length : Int) then none else
  let (ple, r) ← getInt 4 true r
  let (magic, r) ← getInt 1 true r
  if magic ≠ 2 then none else
  let (crc, cov) ← getInt 4 false r
  if crc ≠ (Crc.crc32c cov : Int) then none else
  let (attributes, r) ← getInt 2 true cov
  let (lastOffsetDelta, r) ← getInt 4 true r
  let (baseTimestamp, r) ← getInt 8 true r
  let (maxTimestamp, r) ← getInt 8 true r
  let (producerId, r) ← getInt 8 true r
  let (producerEpoch, r) ← getInt 2 true r
  let (baseSequence, r) ← getInt 4 true r
  let (n, r) ← getInt 4 true r
  if n < 0 then none else
  let (records, r) ← getRecords baseTimestamp baseOffset n.toNat r
  if r ≠ [] then none else
  pure { baseOffset, partitionLeaderEpoch := ple, attributes, lastOffsetDelta, baseTimestamp,
         maxTimestamp, producerId, producerEpoch, baseSequence, records }

end Kio.Spec

namespace Kio.Spec
open Kio

/-- what a writer of *new* batches must derive from the records (C17): base offset and base
    timestamp from the first record, last offset delta from the last, max timestamp over all -/
structure NewBatchParams where
  producerId : Int
  producerEpoch : Int
  partitionLeaderEpoch : Int
  baseSequence : Int
  attributes : Int
  records : List WireRecord       -- with absolute offsets and millisecond timestamps

def deriveBatch (p : NewBatchParams) : Option WireBatch :=
  match p.records with
  | [] => none
  | first :: rest =>
    let last := (first :: rest).getLast?.getD first
    some { baseOffset := first.offset
           partitionLeaderEpoch := p.partitionLeaderEpoch
           attributes := p.attributes
           lastOffsetDelta := last.offset - first.offset
           baseTimestamp := first.timestampMs
           maxTimestamp := (rest.map (·.timestampMs)).foldl max first.timestampMs
           producerId := p.producerId
           producerEpoch := p.producerEpoch
           baseSequence := p.baseSequence
           records := first :: rest }

end Kio.Spec
