/-
Basic vocabulary of the kio model: bytes, errors, Python values.
No Mathlib imports in model files (the driver is run with `lean --run`).
-/
namespace Kio

abbrev Bytes := List UInt8

/-- Exceptions the modelled Python code can raise (DESIGN §3.5). -/
inductive Err where
  | underflow        -- kio.serial.errors.BufferUnderflow
  | unexpectedNull   -- UnexpectedNull
  | outOfBound       -- OutOfBoundValue
  | schemaError      -- SchemaError
  | encodeError      -- EncodeError
  | valueError       -- ValueError (incl. UnicodeDecodeError, enum lookups)
  | overflowError    -- OverflowError
  | structError      -- struct.error
  | typeError        -- TypeError
  | keyError         -- KeyError
  | notImplemented   -- NotImplementedError
  | attributeError   -- AttributeError
  | ioError (k : Nat) -- an exception raised by the stream itself at its k-th operation
  | unspecified      -- outside the modelled domain: the harness does not compare
deriving DecidableEq, Repr, Inhabited

/-- C10's allowed decode outcomes: kio's SerialError family, ValueError, OverflowError. -/
def Err.allowed : Err → Bool
  | .underflow | .unexpectedNull | .outOfBound | .schemaError | .encodeError
  | .valueError | .overflowError => true
  | _ => false

/-- the three classes the differential harness compares (DESIGN §4.2) -/
def Err.cls : Err → String
  | .underflow => "underflow"
  | .unspecified => "unspecified"
  | e => if e.allowed then "rejected" else "internal"

def Err.name : Err → String
  | .underflow => "BufferUnderflow" | .unexpectedNull => "UnexpectedNull"
  | .outOfBound => "OutOfBoundValue" | .schemaError => "SchemaError"
  | .encodeError => "EncodeError" | .valueError => "ValueError"
  | .overflowError => "OverflowError" | .structError => "struct.error"
  | .typeError => "TypeError" | .keyError => "KeyError"
  | .notImplemented => "NotImplementedError" | .attributeError => "AttributeError"
  | .ioError k => s!"IOError@{k}" | .unspecified => "unspecified"

/-- A decoder: consumes a prefix of the remaining bytes. -/
abbrev Dec (α : Type) := Bytes → Except Err (α × Bytes)

/-- Python values as far as kio's codecs see them (DESIGN §3.2). -/
inductive Value where
  | int (i : Int)              -- int, IntEnum members, int subclasses
  | bool (b : Bool)
  | float (bits : Nat)         -- IEEE-754 binary64 bit pattern, < 2^64
  | str (utf8 : Bytes)         -- str, as its UTF-8 encoding
  | bytes (b : Bytes)
  | uuid (b : Bytes)           -- 16 bytes
  | timedelta (us : Int)       -- microseconds
  | datetime (us : Int)        -- aware datetime: microseconds since the epoch
  | none
  | tuple (vs : List Value)
  | entity (vs : List Value)   -- dataclass instance: field values in `fields()` order
deriving Repr, Inhabited

/-! ### Python `==` on values -/

/-- float `==` on bit patterns: NaN ≠ anything, +0 = −0, otherwise bit equality. -/
def floatIsNan (b : Nat) : Bool := (b / 2^52) % 2048 = 2047 ∧ b % 2^52 ≠ 0
def floatIsFinite (b : Nat) : Bool := (b / 2^52) % 2048 ≠ 2047
def floatEq (a b : Nat) : Bool :=
  if floatIsNan a || floatIsNan b then false
  else if a % 2^63 = 0 ∧ b % 2^63 = 0 then true
  else a = b

mutual
/-- Python `==` between two modelled values (`bool` is an `int` in Python). -/
def Value.pyEq : Value → Value → Bool
  | .int a, .int b => a = b
  | .bool a, .bool b => a = b
  | .int a, .bool b => a = (if b then 1 else 0)
  | .bool a, .int b => b = (if a then 1 else 0)
  | .float a, .float b => floatEq a b
  | .str a, .str b => a = b
  | .bytes a, .bytes b => a = b
  | .uuid a, .uuid b => a = b
  | .timedelta a, .timedelta b => a = b
  | .datetime a, .datetime b => a = b
  | .none, .none => true
  | .tuple a, .tuple b => Value.pyEqList a b
  | .entity a, .entity b => Value.pyEqList a b
  | _, _ => false
def Value.pyEqList : List Value → List Value → Bool
  | [], [] => true
  | a :: as, b :: bs => a.pyEq b && Value.pyEqList as bs
  | _, _ => false
end

mutual
/-- structural equality (decidable; `Value` is a nested inductive, so written by hand) -/
def Value.beq : Value → Value → Bool
  | .int a, .int b => a = b
  | .bool a, .bool b => a = b
  | .float a, .float b => a = b
  | .str a, .str b => a = b
  | .bytes a, .bytes b => a = b
  | .uuid a, .uuid b => a = b
  | .timedelta a, .timedelta b => a = b
  | .datetime a, .datetime b => a = b
  | .none, .none => true
  | .tuple a, .tuple b => Value.beqList a b
  | .entity a, .entity b => Value.beqList a b
  | _, _ => false
def Value.beqList : List Value → List Value → Bool
  | [], [] => true
  | a :: as, b :: bs => a.beq b && Value.beqList as bs
  | _, _ => false
end

instance : BEq Value := ⟨Value.beq⟩

/-! ### small helpers shared by model files -/

theorem bind_ok {ε α β} {x : Except ε α} {f : α → Except ε β} {b : β}
    (h : x >>= f = .ok b) : ∃ a, x = .ok a ∧ f a = .ok b := by
  cases x with
  | error e => simp [bind, Except.bind] at h
  | ok a => exact ⟨a, rfl, h⟩

theorem bind_err {ε α β} {x : Except ε α} {f : α → Except ε β} {e : ε}
    (h : x >>= f = .error e) : x = .error e ∨ ∃ a, x = .ok a ∧ f a = .error e := by
  cases x with
  | error e' => left; simpa [bind, Except.bind] using h
  | ok a => right; exact ⟨a, rfl, h⟩

end Kio
