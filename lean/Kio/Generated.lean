import Kio.Generated.All
