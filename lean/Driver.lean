import Kio.Wire
import Kio.Model.Current
import Kio.Spec.Wire
import Kio.Generated.All
import Kio.WireRec
import Kio.Spec.Foreign
import Kio.Spec.ConformsMix
import Kio.Model.TablePreds
import Kio.Generated.Info
import Kio.Model.Phantom
import Kio.Generated.Bounds
import Kio.Gen.DefSpec
import Kio.Gen.Wire
import Kio.Proofs.GenSpec
import Kio.Model.Typing
import Kio.Gen.Supported
/-!
Line-protocol driver (DESIGN §4.2): one request per line on stdin, one reply per line on stdout.
Run with `lake env lean --run Driver.lean`.
-/
open Kio

structure St where
  env : Env
  rcfg : RecCfg
  classes : Array Schema

def renderDec (total : Nat) : Except Err (Value × Bytes) → String
  | .ok (v, rest) => s!"ok {total - rest.length} {v.render}"
  | .error e => s!"err {e.cls} {e.name}"

def renderEnc : Except Err Bytes → String
  | .ok b => s!"ok {hexTok b}"
  | .error e => s!"err {e.cls} {e.name}"

def primReader (env : Env) (fn : String) : Option (Dec Value) :=
  match fn with
  | "read_boolean" => some readBoolean
  | "read_int8" => some readInt8 | "read_int16" => some readInt16
  | "read_int32" => some readInt32 | "read_int64" => some readInt64
  | "read_uint8" => some readUint8 | "read_uint16" => some readUint16
  | "read_uint32" => some readUint32 | "read_uint64" => some readUint64
  | "read_unsigned_varint" => some readUnsignedVarint
  | "read_signed_varint" => some readSignedVarint
  | "read_unsigned_varlong" => some readUnsignedVarlong
  | "read_signed_varlong" => some readSignedVarlong
  | "read_float64" => some readFloat64
  | "read_compact_string_as_bytes" => some readCompactStringAsBytes
  | "read_compact_string_as_bytes_nullable" => some readCompactStringAsBytesNullable
  | "read_compact_string" => some readCompactString
  | "read_compact_string_nullable" => some readCompactStringNullable
  | "read_legacy_bytes" => some readLegacyBytes
  | "read_nullable_legacy_bytes" => some readNullableLegacyBytes
  | "read_legacy_string" => some readLegacyString
  | "read_nullable_legacy_string" => some readNullableLegacyString
  | "read_legacy_array_length" => some (fun bs => do let (i, r) ← readLegacyArrayLength bs; pure (.int i, r))
  | "read_compact_array_length" => some (fun bs => do let (i, r) ← readCompactArrayLength bs; pure (.int i, r))
  | "read_uuid" => some readUuid
  | "read_error_code" => some (readErrorCode env.errorCodes)
  | "read_timedelta_i32" => some readTimedeltaI32
  | "read_timedelta_i64" => some readTimedeltaI64
  | "read_datetime_i64" => some (readDatetimeI64 env.time)
  | "read_nullable_datetime_i64" => some (readNullableDatetimeI64 env.time)
  -- array readers are exercised with fixed item readers
  | "compact_array_reader:int32" => some (compactArrayReader readInt32)
  | "legacy_array_reader:int32" => some (legacyArrayReader readInt32)
  | "compact_array_reader:compact_string" => some (compactArrayReader readCompactString)
  | "legacy_array_reader:legacy_string" => some (legacyArrayReader readLegacyString)
  | _ => none

def primWriter (env : Env) (fn : String) : Option (Value → Except Err Bytes) :=
  match fn with
  | "write_boolean" => some writeBoolean
  | "write_int8" => some writeInt8 | "write_int16" => some writeInt16
  | "write_int32" => some writeInt32 | "write_int64" => some writeInt64
  | "write_uint8" => some writeUint8 | "write_uint16" => some writeUint16
  | "write_uint32" => some writeUint32 | "write_uint64" => some writeUint64
  | "write_unsigned_varint" => some writeUnsignedVarint
  | "write_unsigned_varlong" => some writeUnsignedVarlong
  | "write_signed_varint" => some writeSignedVarint
  | "write_signed_varlong" => some writeSignedVarlong
  | "write_float64" => some writeFloat64
  | "write_nullable_compact_string" => some writeNullableCompactString
  | "write_compact_string" => some writeCompactString
  | "write_nullable_legacy_string" => some writeNullableLegacyString
  | "write_nullable_legacy_bytes" => some writeNullableLegacyBytes
  | "write_legacy_string" => some writeLegacyString
  | "write_legacy_bytes" => some writeLegacyBytes
  | "write_empty_tagged_fields" => some (fun _ => writeEmptyTaggedFields)
  | "write_legacy_array_length" => some writeLegacyArrayLength
  | "write_compact_array_length" => some (fun v => match v.asInt? with
      | some i => writeCompactArrayLength i | none => .error .typeError)
  | "write_uuid" => some writeUuid
  | "write_error_code" => some writeErrorCode
  | "write_timedelta_i32" => some (writeTimedeltaI32 env.time)
  | "write_timedelta_i64" => some (writeTimedeltaI64 env.time)
  | "write_datetime_i64" => some writeDatetimeI64
  | "write_nullable_datetime_i64" => some writeNullableDatetimeI64
  | "compact_array_writer:int32" => some (compactArrayWriter writeInt32)
  | "legacy_array_writer:int32" => some (legacyArrayWriter writeInt32)
  | "compact_array_writer:compact_string" => some (compactArrayWriter writeCompactString)
  | "legacy_array_writer:legacy_string" => some (legacyArrayWriter writeLegacyString)
  | _ => none

def etypeOf : String → Option EType
  | "request" => some .request | "response" => some .response | "header" => some .header
  | "data" => some .data | "nested" => some .nested | _ => none

def step (st : St) (line : String) : St × String :=
  match (line.trimAscii.toString.splitOn " ").filter (· ≠ "") with
  | ["hello"] => (st, s!"ok {st.classes.size} {Kio.Generated.digest}")
  | ["cfg", a, b, c, d, e] =>
    let env := { st.env with
      time := { tdExact := a = "1", dtExact := b = "1", dtMillis := c = "1" },
      skipUnknownTags := d = "1", nullableTaggedReader := e = "1" }
    ({ st with env := env }, "ok")
  | ["prim", fn, hex] =>
    match primReader st.env fn, bytesOfHex hex with
    | some r, some bs => (st, renderDec bs.length (r bs))
    | _, _ => (st, "bad-op")
  | "wprim" :: fn :: toks =>
    match primWriter st.env fn, parseValue toks with
    | some w, some (v, []) => (st, renderEnc (w v))
    | _, _ => (st, "bad-op")
  | ["tzaware", n] =>
    match n.toInt? with
    | some i => (st, match tzAwareFromI64 st.env.time i with
        | .ok v => s!"ok 0 {v.render}" | .error e => s!"err {e.cls} {e.name}")
    | none => (st, "bad-op")
  | "wtagged" :: tag :: fn :: toks =>
    match tag.toNat?, primWriter st.env fn, parseValue toks with
    | some t, some w, some (v, []) => (st, renderEnc (writeTaggedField t w v))
    | _, _, _ => (st, "bad-op")
  | ["dec", idx, hex] =>
    match idx.toNat?.bind (st.classes[·]?), bytesOfHex hex with
    | some s, some bs => (st, renderDec bs.length (dec st.env s bs))
    | _, _ => (st, "bad-op")
  | "enc" :: idx :: toks =>
    match idx.toNat?.bind (st.classes[·]?), parseValue toks with
    | some s, some (v, []) => (st, renderEnc (enc st.env s v))
    | _, _ => (st, "bad-op")
  | "spec" :: idx :: toks =>
    match idx.toNat?.bind (st.classes[·]?), parseValue toks with
    | some s, some (v, []) => (st, match Spec.enc s v with
        | some b => s!"ok {hexTok b}" | none => "none")
    | _, _ => (st, "bad-op")
  | "foreign" :: idx :: sd :: nunk :: toks =>
    -- foreign <cls> <sendDefaults> <n> (tag hex){n} <value…>
    match idx.toNat?.bind (st.classes[·]?), nunk.toNat? with
    | some s, some n =>
      let rec takeUnk : Nat → List String → Option (List (Nat × Bytes) × List String)
        | 0, ts => some ([], ts)
        | k+1, t :: h :: ts => do
          let tag ← t.toNat?
          let b ← bytesOfHex h
          let (us, ts) ← takeUnk k ts
          pure ((tag, b) :: us, ts)
        | _, _ => none
      match takeUnk n toks with
      | some (unk, rest) =>
        match parseValue rest with
        | some (v, []) =>
          let pat : Spec.ForeignPat := { sendDefaults := sd = "1", unknown := unk }
          if !pat.ok || !Spec.Schema.avoids (unk.map (·.1)) s then (st, "bad-pattern")
          else (st, match Spec.encForeign pat s v with
            | some b => s!"ok {hexTok b}" | none => "none")
        | _ => (st, "bad-op")
      | none => (st, "bad-op")
    | _, _ => (st, "bad-op")
  | "foreignmix" :: idx :: seed :: toks =>
    -- foreignmix <cls> <seed> <value…>: a conforming encoding with per-occurrence choices
    -- (`Spec.encMixed`, proved to lie in `Spec.Conforms`)
    match idx.toNat?.bind (st.classes[·]?), seed.toNat?, parseValue toks with
    | some s, some sd, some (v, []) =>
      let cfg : Spec.MixCfg :=
        { tags := [5, 0, 17, 1, 99, 2, 127, 128, 3, 300, 16383, 16384, 2 ^ 21, 2 ^ 35 - 1, 4, 7],
          payloads := [[0xAA], [], [1, 2, 3, 4, 5], List.replicate 127 0x11, List.replicate 128 0x22,
                       List.replicate 4097 0x5A, List.replicate 300 0x33] }
      (st, match Spec.encMixed cfg sd s v with
        | some b => s!"ok {hexTok b}" | none => "none")
    | _, _, _ => (st, "bad-op")
  | ["isinst", tname, kind, arg] =>
    -- isinst <type> <int|bool|float|str|bytes|td|dta|dtn|none|other> <arg>
    let ty : Option PType := match tname with
      | "i8" => some .i8 | "i16" => some .i16 | "i32" => some .i32 | "i64" => some .i64
      | "u8" => some .u8 | "u16" => some .u16 | "u32" => some .u32 | "u64" => some .u64
      | "uvarint" => some .uvarint | "uvarlong" => some .uvarlong | "svarint" => some .svarint
      | "svarlong" => some .svarlong | "f64" => some .f64 | "i32Timedelta" => some .i32Timedelta
      | "i64Timedelta" => some .i64Timedelta | "TZAware" => some .tzAware
      | "TZAwareMicros" => some .tzAwareMicros | "Records" => some .records | _ => none
    let v : Option PyVal := match kind with
      | "int" => arg.toInt?.map .int
      | "bool" => some (.bool (arg = "1"))
      | "float" => arg.toNat?.map .float
      | "str" => some .str | "bytes" => some .bytes
      | "td" => arg.toInt?.map .timedelta
      | "dta" => arg.toInt?.map (.datetime true)
      | "dtn" => arg.toInt?.map (.datetime false)
      | "none" => some .none | "other" => some .other | _ => none
    match ty, v with
    | some t, some v =>
      (st, s!"ok {if isInstance Generated.bounds t v then 1 else 0} {repr (construct Generated.bounds t v)}")
    | _, _ => (st, "bad-op")
  | "genenc" :: ver :: ndef :: toks =>
    -- genenc <version> <n> <n definition tokens…> <value tokens…>: bytes of an instance of the
    -- generated top-level class according to the spec and to the writer model
    match ver.toNat?, ndef.toNat? with
    | some v, some n =>
      match Gen.parseMsgDef (toks.take n), parseValue (toks.drop n) with
      | some d, some (val, []) =>
        (match Gen.module d Generated.tables.builtins v with
         | .ok gs => (match gs.getLast? with
            | some g =>
              let sp := match Spec.enc g.schema val with | some b => hexTok b | none => "none"
              let im := match enc st.env g.schema val with | .ok b => hexTok b | .error e => "err:" ++ e.name
              (st, s!"ok {sp} {im}")
            | none => (st, "err empty"))
         | .error e => (st, s!"err {repr e}"))
      | _, _ => (st, "bad-op")
    | _, _ => (st, "bad-op")
  | "gencheck" :: toks =>
    -- model-level checks on a definition: statements of C16 and coherence of every generated class
    match Gen.parseMsgDef toks with
    | some d =>
      let b := Generated.tables.builtins
      let res := (Gen.versionsOf d).map (fun v =>
        let agrees := Gen.specAgrees d b v
        let wf := match Gen.module d b v with
          | .ok gs => gs.all (fun g => g.schema.wf st.env)
          | .error _ => true
        s!"v{v}:{agrees}:{wf}")
      (st, "ok " ++ " ".intercalate res)
    | none => (st, "bad-def")
  | "supported" :: toks =>
    -- per version: is the definition in the supported subset, does generation succeed, is every
    -- generated class coherent
    match Gen.parseMsgDef toks with
    | some d =>
      let b := Generated.tables.builtins
      let res := (Gen.versionsOf d).map (fun v =>
        let (okm, wf) := match Gen.module d b v with
          | .ok gs => (true, gs.all (fun g => g.schema.wf st.env))
          | .error _ => (false, true)
        s!"v{v}:{Gen.Supported d v}:{okm}:{wf}:{Gen.defaultsAgree d b v}")
      (st, "ok " ++ " ".intercalate res)
    | none => (st, "bad-def")
  | "defspec" :: ver :: toks =>
    match Gen.parseMsgDef toks with
    | some d =>
      let vs := if ver = "all" then Gen.versionsOf d else (match ver.toNat? with | some v => [v] | none => [])
      let pkg := Gen.strOfChars (Gen.packageName Generated.tables.builtins d)
      (st, s!"ok {pkg} ## " ++ " ## ".intercalate (vs.map (fun v => s!"v{v} {Gen.renderDefSpec d Generated.tables.builtins v}")))
    | none => (st, "bad-def")
  | "gen" :: ver :: toks =>
    -- gen <version|all> <definition tokens…>
    match Gen.parseMsgDef toks with
    | some d =>
      let vs := if ver = "all" then Gen.versionsOf d else (match ver.toNat? with | some v => [v] | none => [])
      let pkg := Gen.strOfChars (Gen.packageName Generated.tables.builtins d)
      let out := vs.map (fun v => match Gen.module d Generated.tables.builtins v with
        | .ok gs => s!"v{v} ok {Gen.renderModule gs}"
        | .error e => s!"v{v} err {repr e}")
      (st, s!"ok {pkg} ## " ++ " ## ".intercalate out)
    | none => (st, "bad-def")
  | ["idx_key", k] =>
    match k.toInt? with
    | some k => (st, match Generated.tables.nameFromKey k with
        | .ok n => s!"ok {String.ofList ((Generated.tables.name n).map Char.ofNat)}"
        | .error e => s!"err {repr e}")
    | none => (st, "bad-op")
  | ["idx_payload", k, v, et] =>
    match k.toInt?, v.toInt?, etypeOf et with
    | some k, some v, some et => (st, match Generated.tables.loadPayloadSchema k v et with
        | .ok c => s!"ok {c}" | .error e => s!"err {repr e}")
    | _, _, _ => (st, "bad-op")
  | ["idx_entity", name, v, et] =>
    match v.toInt?, etypeOf et with
    | some v, some et =>
      let t := Generated.tables
      (st, match t.entityPathStr (strOf name) v et with
        | .ok leaf => (match leaf.classIdx, leaf.module with
            | some c, some m => s!"ok {c} {String.ofList ((t.name m.api).map Char.ofNat)} {m.version} {repr m.kind}"
            | _, _ => "err importFailed")
        | .error e => s!"err {repr e}")
    | _, _ => (st, "bad-op")
  | ["fields", idx] =>
    match idx.toNat?.bind (st.classes[·]?) with
    | some s =>
      let descr := s.fields.map (fun f => match f with
        | .mk m sh =>
          let kind := match sh with
            | .prim .. => "prim" | .primArr .. => "primArr" | .ent .. => "ent" | .entArr .. => "entArr" | .bad => "bad"
          let opt := match sh.isOptional with | .ok b => (if b then "1" else "0") | .error _ => "E"
          let tag := match m.getTag with | .ok (some t) => toString t | .ok none => "-" | .error _ => "E"
          let dflt := if m.tag.isSome then (match Field.taggedDefault st.env (.mk m sh) with
              | .ok v => v.render.replace " " "," | .error e => "ERR:" ++ e.name) else "-"
          s!"{kind}:{opt}:{tag}:{dflt}")
      (st, "ok " ++ " ".intercalate descr)
    | none => (st, "bad-op")
  | ["reccfg", a, b] => ({ st with rcfg := { exactReads := a = "1", roundTs := b = "1" } }, "ok")
  | ["rbatch", hex] =>
    match bytesOfHex hex with
    | some bs => (st, match readBatch st.rcfg bs with
        | .ok (b, rest) => s!"ok {bs.length - rest.length} {b.toValue.render}"
        | .error e => s!"err {e.cls} {e.name}")
    | none => (st, "bad-op")
  | "wbatch" :: toks =>
    match parseValue toks with
    | some (v, []) =>
      match NewRecordBatch.ofValue v, RecordBatch.ofValue v with
      | some nb, _ => (st, renderEnc (writeNewBatch st.rcfg nb))
      | none, some b => (st, renderEnc (writePreparedBatch st.rcfg b))
      | none, none => (st, "bad-op")
    | _ => (st, "bad-op")
  | "specbatch" :: toks =>
    match parseValue toks with
    | some (v, []) =>
      match Spec.WireBatch.ofValue v with
      | some b => (st, match Spec.batchBytes b with | some bs => s!"ok {hexTok bs}" | none => "none")
      | none => (st, "bad-op")
    | _ => (st, "bad-op")
  | ["specdec", hex] =>
    match bytesOfHex hex with
    | some bs => (st, match Spec.decBatch bs with
        | some b => s!"ok {b.toValue.render}" | none => "none")
    | none => (st, "bad-op")
  | ["crc", hex] =>
    match bytesOfHex hex with
    | some bs => (st, s!"ok {Crc.crc32c bs}")
    | none => (st, "bad-op")
  | _ => (st, "bad-op")

partial def loop (h : IO.FS.Stream) (out : IO.FS.Stream) (st : St) : IO Unit := do
  let line ← h.getLine
  if line.isEmpty then return ()
  let (st', reply) := step st line
  out.putStrLn reply
  out.flush
  loop h out st'

def main : IO Unit := do
  let st : St := { env := Env.current Kio.Generated.errorCodes, rcfg := RecCfg.current, classes := Kio.Generated.allClasses.toArray }
  loop (← IO.getStdin) (← IO.getStdout) st
