#!/bin/sh
# Build the framework offline from files on disk: translate /repo -> Lean data, build model + proofs.
set -e
cd "$(dirname "$0")"
mkdir -p .cache evidence
/venv/bin/python harness/translate.py
cd lean
lake build Kio
# property modules: a failure here is reported by the individual check, not by setup
lake build KioProps || true
