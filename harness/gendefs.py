"""Message definitions: token encoding for the Lean `Gen` model, rendering of live generated
classes in the model's output format, and running the real code generator in a scratch tree."""
from __future__ import annotations

import dataclasses
import json
import os
import shutil
import subprocess
import sys
import tempfile
import types
import typing

import values

REPO = os.environ.get("KIO_REPO", "/repo")


def hx(s: str) -> str:
    return s.encode().hex() if s else "-"


def default_token(d) -> str:
    """pydantic-v1 coerces JSON numbers/bools to str for `default: str | int | float | bool | None`"""
    if d is None:
        return "~"
    if isinstance(d, bool):
        return hx(str(d))
    return hx(str(d))


def field_tokens(f: dict) -> list[str]:
    out = ["F", hx(f["name"]), f["type"], f.get("versions", "~"), f.get("nullableVersions", "~"),
           f.get("taggedVersions", "~"), str(f["tag"]) if "tag" in f else "~",
           default_token(f.get("default")), "1" if f.get("ignorable") else "0",
           hx(f["entityType"]) if f.get("entityType") else "~"]
    if "fields" in f:
        out.append(str(len(f["fields"])))
        for s in f["fields"]:
            out.extend(field_tokens(s))
    else:
        out.append("~")
    return out


def def_tokens(d: dict) -> list[str]:
    out = ["M", hx(d["name"]), d["type"], str(d["apiKey"]) if "apiKey" in d else "~",
           d["validVersions"], d["flexibleVersions"], str(len(d["fields"]))]
    for f in d["fields"]:
        out.extend(field_tokens(f))
    cs = d.get("commonStructs", [])
    out.append(str(len(cs)))
    for c in cs:
        out.extend([hx(c["name"]), str(len(c["fields"]))])
        for f in c["fields"]:
            out.extend(field_tokens(f))
    return out


# ---- rendering live classes in the model's format -------------------------------------------

PRIMS = None


def prim_names():
    global PRIMS
    if PRIMS is None:
        import uuid
        from kio.schema.errors import ErrorCode
        from kio.static import primitive as p
        PRIMS = {p.i8: "i8", p.i16: "i16", p.i32: "i32", p.i64: "i64", p.u8: "u8", p.u16: "u16", p.u32: "u32",
                 p.u64: "u64", p.f64: "f64", str: "str", bytes: "bytes", p.Records: "records", uuid.UUID: "uuid",
                 bool: "bool", ErrorCode: "errorCode", p.i32Timedelta: "i32Timedelta",
                 p.i64Timedelta: "i64Timedelta", p.TZAware: "tzAware"}
    return PRIMS


def leaf(tp, prims) -> str:
    for k, v in prims.items():
        if tp is k or (isinstance(tp, type) and tp.__name__ == getattr(k, "__name__", None) and tp.__module__ == k.__module__):
            return v
    if isinstance(tp, type) and tp.__bases__:
        b = tp.__bases__[0]
        for k, v in prims.items():
            if b is k or (b.__name__ == getattr(k, "__name__", None) and b.__module__ == k.__module__):
                return v + "+"
    return "other"


def strip_opt(tp):
    if typing.get_origin(tp) in (types.UnionType, typing.Union):
        args = typing.get_args(tp)
        if len(args) == 2 and type(None) in args:
            return (args[0] if args[1] is type(None) else args[1]), True
        return None, False
    return tp, False


def lean_bool(b):
    return "true" if b else "false"


def render_shape(tp, prims) -> str:
    inner, opt = strip_opt(tp)
    if inner is None:
        return "bad"
    if typing.get_origin(inner) is tuple:
        args = typing.get_args(inner)
        if len(args) != 2 or args[1] is not Ellipsis:
            return "bad"
        elem = args[0]
        if dataclasses.is_dataclass(elem):
            return f"entArr({elem.__name__},{lean_bool(opt)})"
        einner, eopt = strip_opt(elem)
        if einner is None:
            return "bad"
        return f"primArr({leaf(einner, prims)},{lean_bool(eopt)},{lean_bool(opt)})"
    if dataclasses.is_dataclass(inner):
        return f"ent({inner.__name__},{lean_bool(opt)})"
    return f"prim({leaf(inner, prims)},{lean_bool(opt)})"


KT = {"int8": "int8", "int16": "int16", "int32": "int32", "int64": "int64", "uint8": "uint8", "uint16": "uint16",
      "uint32": "uint32", "uint64": "uint64", "float64": "float64", "string": "string", "bytes": "bytes",
      "records": "records", "uuid": "uuid", "bool": "bool", "error_code": "errorCode",
      "timedelta_i32": "timedeltaI32", "timedelta_i64": "timedeltaI64", "datetime_i64": "datetimeI64"}


def render_class(c, prims=None) -> str:
    prims = prims or prim_names()
    fs = []
    for f in dataclasses.fields(c):
        kt = f.metadata.get("kafka_type")
        tag = f.metadata.get("tag")
        if f.default is dataclasses.MISSING:
            d = "MISSING"
        else:
            try:
                d = values.render(values.abstract(f.default)).replace(" ", ",")
            except Exception:  # noqa: BLE001
                d = "UNREPRESENTABLE"
        fs.append(f"{f.name}:{render_shape(f.type, prims)}:{KT.get(kt, 'unknown') if kt is not None else '-'}:"
                  f"{'-' if tag is None else tag}:{d}")
    hs = getattr(c, "__header_schema__", None)
    ak = getattr(c, "__api_key__", None)
    return (f"{c.__name__}|{c.__type__.name}|{int(c.__version__)}|{lean_bool(c.__flexible__)}|"
            f"{'-' if ak is None else int(ak)}|{'-' if hs is None else int(hs.__version__)}|" + " ".join(fs))


def render_module(mod) -> str:
    cs = [c for c in vars(mod).values() if isinstance(c, type) and getattr(c, "__module__", None) == mod.__name__
          and dataclasses.is_dataclass(c)]
    return " ;; ".join(render_class(c) for c in cs)


# ---- running the real generator ---------------------------------------------------------------

RUNNER = r'''
import sys, os, json, importlib, dataclasses, traceback
scratch, harness = sys.argv[1], sys.argv[2]
os.chdir(scratch)
sys.path.insert(0, os.path.join(scratch, "src"))
sys.path.insert(0, scratch)
sys.path.insert(0, harness)
out = {"gen_error": None, "modules": {}, "import_errors": {}, "index": None}
try:
    import codegen.generate_schema as g
    g.main()
    try:
        import codegen.generate_index as gi
        snm, akm = gi.build_index()
        out["index"] = {"keys": {str(int(k)): v for k, v in akm.items()},
                        "names": {n: {str(v): {t.name: p for t, p in tm.items()} for v, tm in vm.items()}
                                  for n, vm in snm.items()}}
        # the index *as written*: the text `generate_index.main()` emits, executed
        try:
            text = "\n".join([gi.module_setup, *gi.format_api_key_map(akm), *gi.format_schema_name_map(snm)])
            ns = {}
            exec(compile(text, "index_as_written.py", "exec"), ns)
            out["index_written"] = {
                "keys": {str(int(k)): v for k, v in ns["api_key_map"].items()},
                "names": {n: {str(v): {t.name: p for t, p in tm.items()} for v, tm in vm.items()}
                          for n, vm in ns["schema_name_map"].items()}}
        except BaseException as e:
            out["index_written_error"] = f"{type(e).__name__}: {e}"
    except BaseException as e:
        out["index_error"] = f"{type(e).__name__}: {e}"
except BaseException as e:
    out["gen_error"] = f"{type(e).__name__}: {e} || " + traceback.format_exc()[-1500:]
import gendefs
root = os.path.join(scratch, "src", "kio", "schema")
for api in sorted(os.listdir(root)):
    p = os.path.join(root, api)
    if not os.path.isdir(p) or api.startswith("__"):
        continue
    for ver in sorted(os.listdir(p)):
        if not ver.startswith("v"):
            continue
        for f in sorted(os.listdir(os.path.join(p, ver))):
            if f.endswith(".py") and f != "__init__.py":
                name = f"kio.schema.{api}.{ver}.{f[:-3]}"
                try:
                    m = importlib.import_module(name)
                    out["modules"][name] = gendefs.render_module(m)
                    # every class a field is typed with must be the class the module exports under that
                    # name (a structure emitted twice leaves fields typed with a shadowed class)
                    import typing as _t
                    def _leaves(tp):
                        if dataclasses.is_dataclass(tp) and isinstance(tp, type):
                            return [tp]
                        return [x for a in _t.get_args(tp) if a is not Ellipsis for x in _leaves(a)]
                    for c in [c for c in vars(m).values() if isinstance(c, type) and dataclasses.is_dataclass(c)
                              and getattr(c, "__module__", None) == name]:
                        for fld in dataclasses.fields(c):
                            for leaf in _leaves(_t.get_type_hints(c)[fld.name]):
                                if leaf.__module__ == name and getattr(m, leaf.__name__, None) is not leaf:
                                    out.setdefault("shadowed", []).append(f"{name}:{c.__name__}.{fld.name} -> {leaf.__name__}")
                    src = open(os.path.join(p, ver, f)).read()
                    import re as _re
                    names = _re.findall(r"^class (\w+)", src, flags=_re.M)
                    dup = sorted({n for n in names if names.count(n) > 1})
                    if dup:
                        out.setdefault("shadowed", []).append(f"{name}: class statement repeated for {dup}")
                except BaseException as e:
                    out["import_errors"][name] = f"{type(e).__name__}: {e}"
# explicit float64 defaults as the generated classes carry them (type and exact value), and the bytes of
# an instance built from defaults alone where every field has one
out["float_defaults"], out["default_bytes"] = {}, {}
try:
    import io as _io
    from kio.serial import entity_writer as _ew
    for name in sorted(out["modules"]):
        m = importlib.import_module(name)
        for c in [c for c in vars(m).values() if isinstance(c, type) and dataclasses.is_dataclass(c)
                  and getattr(c, "__module__", None) == name]:
            fl = [f for f in dataclasses.fields(c) if f.metadata.get("kafka_type") == "float64"
                  and f.default is not dataclasses.MISSING]
            for f in fl:
                out["float_defaults"][f"{name}:{c.__name__}.{f.name}"] = [type(f.default).__name__, float(f.default).hex()]
            if fl and all(f.default is not dataclasses.MISSING or f.default_factory is not dataclasses.MISSING
                          for f in dataclasses.fields(c)):
                try:
                    b = _io.BytesIO(); _ew(c)(b, c())
                    out["default_bytes"][f"{name}:{c.__name__}"] = b.getvalue().hex()
                except BaseException as e:
                    out["default_bytes"][f"{name}:{c.__name__}"] = f"error {type(e).__name__}: {e}"
except BaseException as e:
    out["float_defaults_error"] = f"{type(e).__name__}: {e}"
# instances of the generated top-level classes through the real writer and reader
out["instances"] = []
try:
    import random, io
    import gen as G, values as V
    from kio.serial import entity_reader, entity_writer
    from kio.schema.errors import ErrorCode
    codes = sorted(int(m.value) for m in ErrorCode)
    rng = random.Random(int(sys.argv[3]) if len(sys.argv) > 3 else 0)
    for name in sorted(out["modules"]):
        if ".request_header." in name or ".response_header." in name:
            continue
        m = importlib.import_module(name)
        tops = [c for c in vars(m).values() if isinstance(c, type) and getattr(c, "__module__", None) == name
                and dataclasses.is_dataclass(c) and c.__type__.name != "nested"]
        for c in tops:
            g = G.Gen(rng, codes, big_strings=False)
            for k in range(3):
                rec = {"module": name, "class": c.__name__}
                try:
                    # (the third instance has no field at its default: every tagged field is on the wire)
                    a = g.instance(c, budget=10, default_prob=0.0 if k == 2 else None)
                    rec["value"] = V.render(a)
                    obj = V.build(a, c)
                    b = io.BytesIO(); entity_writer(c)(b, obj)
                    rec["bytes"] = b.getvalue().hex()
                    back = entity_reader(c)(io.BytesIO(b.getvalue() + b"\x01"))
                    rec["roundtrip"] = (back == obj)
                except BaseException as e:
                    rec["error"] = f"{type(e).__name__}: {e}"
                out["instances"].append(rec)
except BaseException as e:
    out["instances_error"] = f"{type(e).__name__}: {e}"
json.dump(out, open(os.path.join(scratch, "result.json"), "w"))
'''


def run_codegen(defs: list[dict], keep: bool = False, seed: int = 0) -> dict:
    """Run /repo's code generator on `defs` in a scratch tree outside /repo and /verif; import
    what it generated in a subprocess; return the rendered modules.  The tree is removed."""
    scratch = tempfile.mkdtemp(prefix="kio-gen-")
    try:
        os.makedirs(os.path.join(scratch, "schema"))
        shutil.copytree(os.path.join(REPO, "codegen"), os.path.join(scratch, "codegen"))
        src = os.path.join(scratch, "src", "kio")
        shutil.copytree(os.path.join(REPO, "src", "kio"), src,
                        ignore=lambda d, names: [n for n in names if n == "__pycache__"])
        # empty schema package: keep only __init__, errors
        sch = os.path.join(src, "schema")
        for n in os.listdir(sch):
            p = os.path.join(sch, n)
            if os.path.isdir(p):
                shutil.rmtree(p)
            elif n not in ("__init__.py", "errors.py"):
                os.remove(p)
        # kio.static.protocol imports the shipped header modules; the generated tree may not
        # contain them, and nothing the generator or the generated modules need imports it
        import re
        tag = "unknown"
        init = open(os.path.join(REPO, "codegen", "__init__.py")).read()
        m = re.search(r'build_tag[^=]*=\s*"([^"]+)"', init)
        if m:
            tag = m.group(1)
        ddir = os.path.join(scratch, "schema", tag)
        os.makedirs(ddir)
        for d in defs:
            with open(os.path.join(ddir, d["name"] + ".json"), "w") as fh:
                json.dump(d, fh, indent=1, ensure_ascii=False)   # text as upstream writes it: UTF-8, not \\u escapes
        runner = os.path.join(scratch, "runner.py")
        open(runner, "w").write(RUNNER)
        p = subprocess.run(["/venv/bin/python", runner, scratch, os.path.dirname(os.path.abspath(__file__)), str(seed)],
                           stdout=subprocess.PIPE, stderr=subprocess.PIPE, timeout=1800,
                           env={**os.environ, "PYTHONPATH": ""})
        rp = os.path.join(scratch, "result.json")
        if not os.path.exists(rp):
            return {"gen_error": "runner crashed: " + p.stderr.decode()[-2000:], "modules": {}, "import_errors": {}}
        return json.load(open(rp))
    finally:
        if not keep:
            shutil.rmtree(scratch, ignore_errors=True)
