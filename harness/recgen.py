"""Generators and real-code wrappers for kio.records (C17, C18)."""
from __future__ import annotations

import datetime
import io
import random

import pyside
import values

MAX_TS_MS = 253402300799999


def gen_bytes_opt(rng, big=False):
    c = rng.random()
    if c < 0.2:
        return None
    if c < 0.35:
        return b""
    n = rng.choice([1, 2, 3, 8, 63, 64, 127, 128]) if not (big and rng.random() < 0.1) else rng.choice([8191, 8192, 20000])
    return bytes(rng.getrandbits(8) for _ in range(n))


def gen_record(rng, base_ms, base_off, whole_seconds=False, big=False):
    dms = rng.choice([0, 0, 1, 999, 1000, 1001, -1, -1000, 86400000]) if rng.random() < 0.5 else rng.randint(-10**6, 10**6)
    ms = min(max(base_ms + dms, 0), MAX_TS_MS)
    if whole_seconds:
        ms = ms // 1000 * 1000
    doff = rng.choice([0, 1, 2, -1, 63, 64, 2**31 - 1 - 0, -(2**20)]) if rng.random() < 0.4 else rng.randint(-1000, 100000)
    headers = [("E", [opt(gen_bytes_opt(rng)), opt(gen_bytes_opt(rng))]) for _ in range(rng.choice([0, 0, 1, 2, 3]))]
    return ("E", [("I", rng.choice([0, 0, 1, -128, 127, rng.randint(-128, 127)])), ("D", ms * 1000),
                  ("I", base_off + doff), opt(gen_bytes_opt(rng, big)), opt(gen_bytes_opt(rng, big)),
                  ("A", headers)])


def opt(b):
    return ("N",) if b is None else ("Y", b)


def gen_new_batch(rng, whole_seconds=False, big=False):
    c = rng.random()
    base_ms = rng.choice([0, 1, 1001, 1503229838908, 139751028864291, MAX_TS_MS - 5000]) if c < 0.5 else rng.randint(0, MAX_TS_MS - 10**7)
    base_off = rng.choice([0, 1, 2**31, 2**62, -5]) if rng.random() < 0.5 else rng.randint(0, 2**40)
    n = rng.choice([1, 1, 2, 3, 5, 8]) if rng.random() < 0.9 else rng.choice([64, 130])
    recs = [gen_record(rng, base_ms, base_off, whole_seconds, big) for _ in range(n)]
    def hi(bits):
        return rng.choice([0, 1, -1, 2**(bits-1) - 1, -2**(bits-1), rng.randint(-2**(bits-1), 2**(bits-1) - 1)])
    return ("E", [("I", hi(64)), ("I", hi(16)), ("I", hi(32)), ("I", hi(32)), ("A", recs), ("I", hi(16))])


def build_record(a):
    from kio.records.schema import Record, RecordHeader

    at, ts, off, k, v, hs = a[1]
    return Record(
        attributes=at[1], timestamp=values.EPOCH + datetime.timedelta(microseconds=ts[1]), offset=off[1],
        key=None if k[0] == "N" else k[1], value=None if v[0] == "N" else v[1],
        headers=tuple(RecordHeader(key=None if h[1][0][0] == "N" else h[1][0][1],
                                   value=None if h[1][1][0] == "N" else h[1][1][1]) for h in hs[1]))


def build_new_batch(a):
    from kio.records.schema import NewRecordBatch

    pid, pe, ple, bs, recs, at = a[1]
    return NewRecordBatch(producer_id=pid[1], producer_epoch=pe[1], partition_leader_epoch=ple[1],
                          base_sequence=bs[1], records=tuple(build_record(r) for r in recs[1]),
                          attributes=at[1])


def build_batch(a):
    from kio.records.schema import RecordBatch

    f = a[1]
    return RecordBatch(base_offset=f[0][1], batch_length=f[1][1], partition_leader_epoch=f[2][1],
                       crc=f[3][1], attributes=f[4][1], last_offset_delta=f[5][1],
                       base_timestamp=f[6][1], max_timestamp=f[7][1], producer_id=f[8][1],
                       producer_epoch=f[9][1], base_sequence=f[10][1],
                       records=tuple(build_record(r) for r in f[11][1]))


def write_real(batch) -> str:
    from kio.records.writers import write_batch

    buf = io.BytesIO()
    try:
        write_batch(buf, batch)
    except Exception as e:  # noqa: BLE001
        return f"err {pyside.exc_class(e)} {type(e).__name__}"
    return f"ok {values.hex_tok(buf.getvalue())}"


def read_real(data: bytes) -> str:
    from kio.records.readers import read_batch

    return pyside.run_reader(read_batch, data)


def derive_wire(a):
    """NewRecordBatch abstract value -> the WireBatch (abstract) an independent reading derives"""
    pid, pe, ple, bs, recs, at = a[1]
    rs = recs[1]
    first, last = rs[0][1], rs[-1][1]
    ms = [r[1][1][1] // 1000 for r in rs]
    wrecs = [("E", [r[1][0], ("I", r[1][1][1] // 1000), r[1][2], r[1][3], r[1][4], r[1][5]]) for r in rs]
    return ("E", [first[2], ple, at, ("I", last[2][1] - first[2][1]), ("I", ms[0]), ("I", max(ms)),
                  pid, pe, bs, ("A", wrecs)])
