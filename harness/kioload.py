"""Load kio from /repo's *working tree* and walk the schema package by our own means
(pkgutil), independent of kio.schema.index and of codegen.introspect_schema."""
from __future__ import annotations

import dataclasses
import importlib
import os
import pkgutil
import sys

REPO = os.environ.get("KIO_REPO", "/repo")
SRC = os.path.join(REPO, "src")
if SRC not in sys.path:
    sys.path.insert(0, SRC)


def walk_schema_modules():
    """Yield (module_name, module) for every kio.schema.<api>.v<N>.<type> module."""
    import kio.schema

    out = []
    for pkg in pkgutil.walk_packages(kio.schema.__path__, "kio.schema."):
        if pkg.ispkg:
            continue
        parts = pkg.name.split(".")
        if len(parts) == 5 and parts[3].startswith("v") and parts[3][1:].isdigit():
            out.append(pkg.name)
    out.sort(key=lambda n: (n.split(".")[2], int(n.split(".")[3][1:]), n.split(".")[4]))
    return [(n, importlib.import_module(n)) for n in out]


def module_classes(mod):
    """Dataclasses *defined* in the module, in definition order."""
    return [
        c
        for c in vars(mod).values()
        if isinstance(c, type)
        and getattr(c, "__module__", None) == mod.__name__
        and dataclasses.is_dataclass(c)
    ]


def all_classes():
    """[(key, cls)] with key = 'module:qualname', deterministic order."""
    out = []
    for name, mod in walk_schema_modules():
        for c in module_classes(mod):
            out.append((f"{name}:{c.__qualname__}", c))
    return out
