"""PRNG-driven generator of message definitions inside the supported subset (DESIGN C.3)."""
from __future__ import annotations

import json
import keyword
import random

PRIMS = ["bool", "int8", "int16", "int32", "int64", "uint16", "uint32", "uint64", "float64", "string", "bytes", "uuid", "records"]
ENTITY_TYPES = {"brokerId": "int32", "topicName": "string", "groupId": "string", "producerId": "int64",
                "transactionalId": "string"}
TIMEDELTA = ["TimeoutMs", "ThrottleTimeMs", "MaxWaitMs", "SessionTimeoutMs", "RebalanceTimeoutMs", "RetentionTimeMs"]
DATETIME = ["IssueTimestampMs", "ExpiryTimestampMs", "MaxTimestampMs", "LogAppendTimeMs"]
WORDS = ["Topic", "Partition", "Offset", "Leader", "Epoch", "Name", "Id", "Index", "Broker", "Replica", "ISR",
         "Config", "Value", "Key", "Type", "State", "Member", "Group", "Host", "Port", "Rack", "V2", "Max", "Min",
         "Bytes", "Count", "Flag", "Data", "Session", "Reason", "Owner", "Token", "Hash", "Set", "Map", "Filter"]


def snake(name: str) -> str:
    import re
    return re.sub(r"(?<=[a-z])(?=[A-Z])|(?<=[A-Z0-9])(?=[A-Z][a-z])", "_", name).lower()


class DefGen:
    def __init__(self, rng: random.Random, serial: int):
        self.rng = rng
        self.serial = serial
        self.struct_n = 0

    def field_name(self, used):
        r = self.rng
        for _ in range(100):
            n = "".join(r.choice(WORDS) for _ in range(r.choice([1, 2, 2, 3])))
            s = snake(n)
            if s in used or keyword.iskeyword(s) or n.endswith("Ms") or n in ("ErrorCode", "PartitionErrorCode"):
                continue
            used.add(s)
            return n
        raise RuntimeError("name space exhausted")

    def vrange(self, lo, hi, allow_open=True):
        """a sub-range of [lo, hi] in one of the spellings N, N-M, N+"""
        r = self.rng
        a = r.randint(lo, hi)
        c = r.random()
        if c < 0.45 and allow_open:
            return f"{a}+", (a, None)
        if c < 0.6:
            return f"{a}", (a, a)
        b = r.randint(a, hi)
        return f"{a}-{b}", (a, b)

    def default_for(self, t, nullable_all):
        r = self.rng
        if t in ("int8", "int16", "int32", "int64", "uint16", "uint32", "uint64"):
            v = r.choice([0, 1, -1, 5, 127]) if not t.startswith("u") else r.choice([0, 1, 5, 255])
            return r.choice([str(v), v, hex(v) if v >= 0 else str(v)])
        if t == "bool":
            return r.choice(["true", "false", True, False])
        if t == "string":
            # (string defaults are arbitrary text: quotes, backslashes, non-ASCII inside and outside the BMP)
            texts = ["", "abc", "abc", " n/a ", "x ", "\tq", "it's", 'say "hi"', "back\\slash", "caf\u00e9", "\u65e5\u672c", "v1-\U0001f680"]
            return r.choice(texts + ["null"]) if nullable_all else r.choice(texts)
        if t == "float64":
            return r.choice(["0.0", 0.0, "-0.0"])       # integer spellings are outside the supported subset
        if t in ("bytes", "records", "uuid"):
            return "null" if nullable_all and t != "uuid" else None
        return None

    def gen_field(self, lo, hi, flex_lo, used, tags, depth, structs):
        r = self.rng
        vs, (a, b) = self.vrange(lo, hi)
        f = {"versions": vs}
        top = hi if b is None else b
        kind = r.choices(["prim", "time", "error", "primArr", "struct", "structArr"], [50, 8, 6, 12, 10 if depth < 2 else 0, 14 if depth < 2 else 0])[0]
        nullable_all = False
        if kind == "time":
            pool = [n for n in TIMEDELTA + DATETIME if snake(n[:-2]) not in used]
            if not pool:
                kind = "prim"
            else:
                n = r.choice(pool)
                used.add(snake(n[:-2]))
                f["name"] = n
                f["type"] = r.choice(["int32", "int64"]) if n in TIMEDELTA else "int64"
                if n in TIMEDELTA and r.random() < 0.3:
                    f["default"] = r.choice(["0", "-1", "60000", 500])
                if n in DATETIME and r.random() < 0.4:
                    f["default"] = "-1"
        if kind == "error":
            n = r.choice(["ErrorCode", "PartitionErrorCode"])
            if snake(n) in used:
                kind = "prim"
            else:
                used.add(snake(n))
                f["name"] = n
                f["type"] = "int16"
                if r.random() < 0.2:
                    f["default"] = "0"
        if kind == "prim":
            f["name"] = self.field_name(used)
            t = r.choice(PRIMS)
            f["type"] = t
            if t in ("string", "bytes", "records") and r.random() < 0.4:
                nvs, (na, nb) = self.vrange(a, top)
                f["nullableVersions"] = nvs
                nullable_all = na <= a and (nb is None or nb >= top)
            if r.random() < 0.35:
                d = self.default_for(t, nullable_all)
                if d is not None:
                    f["default"] = d
            if t in ("string", "int32", "int64") and r.random() < 0.25:
                et = r.choice([k for k, v in ENTITY_TYPES.items() if v == t])
                f["entityType"] = et
        if kind == "primArr":
            f["name"] = self.field_name(used)
            f["type"] = "[]" + r.choice(["int8", "int32", "int64", "string", "uuid"])
            if r.random() < 0.12:
                f["nullableVersions"] = self.vrange(a, top)[0]          # (ignored by the generator: finding H)
        pre_tag = None
        if kind in ("struct", "structArr"):
            # whether the structure field is tagged is decided *before* its members are drawn: a tagged
            # field lives in `ta+`, and the members' version ranges must be drawn inside that range
            pre_tag = flex_lo is not None and top >= flex_lo and r.random() < 0.22
            if pre_tag:
                a, b, top = max(a, flex_lo), None, hi
                vs = f"{a}+"
                f["versions"] = vs
            f["name"] = self.field_name(used)
            self.struct_n += 1
            sname = f"S{self.serial}x{self.struct_n}" + r.choice(["Info", "Data", "Entry", "State"])
            f["type"] = ("[]" if kind == "structArr" else "") + sname
            sub_used, sub_tags = set(), set()
            nf = r.choice([1, 2, 3, 4])
            f["fields"] = [self.gen_field(a, top, flex_lo, sub_used, sub_tags, depth + 1, structs) for _ in range(nf)]
            # every structure has at least one field in every version it is visible in (an array element
            # of encoded size 0 cannot be delimited): an anchor field covering the whole range
            anchor = {"versions": vs, "name": self.field_name(sub_used), "type": r.choice(["int8", "int32", "string", "bool"])}
            f["fields"].insert(r.randrange(len(f["fields"]) + 1), anchor)
            if r.random() < 0.3 and not (pre_tag and kind == "struct"):
                nvs, (na, nb) = self.vrange(a, top)
                f["nullableVersions"] = nvs
                if kind == "struct" and na <= a and (nb is None or nb >= top) and r.random() < 0.5:
                    f["default"] = "null"
        # tagging: only inside the flexible versions, only for fields that exist there
        if flex_lo is not None and top >= flex_lo and (pre_tag if pre_tag is not None else r.random() < 0.22) \
                and f.get("type") != "records" and not (kind == "struct" and "nullableVersions" in f):
            ta = max(a, flex_lo)
            f["taggedVersions"] = f"{ta}+"
            # tags need not be declared in ascending order, nor be contiguous
            free = [t for t in range(0, 9) if t not in tags] or [t for t in range(9, 60) if t not in tags]
            tag = free[0] if r.random() < 0.5 else r.choice(free)
            if r.random() < 0.15:      # multi-byte tag numbers (varint byte order differs from numeric order)
                big = [t for t in (127, 128, 129, 200, 255, 256, 300, 16383, 16384) if t not in tags]
                if big:
                    tag = r.choice(big)
            tags.add(tag)
            f["tag"] = tag
            # usually the field is born tagged; sometimes it exists untagged in earlier versions and
            # becomes tagged later (tag resolution is per version)
            partial = b is None and a < ta and kind in ("prim", "time", "error", "primArr", "structArr") and r.random() < 0.4
            if not partial:
                f["versions"] = f"{ta}+"
            nv_lo = a if partial else ta
            if "nullableVersions" in f and kind != "struct":
                f["nullableVersions"] = f"{nv_lo}+"
            if kind == "struct" and "default" in f:
                del f["default"]
            t = f.get("type")
            # tagged bool / error-code / uuid fields have no implicit default in kio: the supported subset
            # requires an explicit default or `ignorable` (uuid: ignorable, its default is None)
            needs_default = t in ("bool", "uuid") or f["name"] in ("ErrorCode", "PartitionErrorCode")
            if "default" not in f:
                if r.random() < 0.6 or needs_default or kind in ("struct",):
                    f["ignorable"] = True            # tagged ignorable without default (bool → finding G)
            elif r.random() < 0.5:
                f["ignorable"] = True                # ignorable *and* an explicit default: the explicit one wins
            if kind == "prim" and f.get("default") == "null":
                f["nullableVersions"] = f"{nv_lo}+"
            # a tagged nullable field needs None as its (explicit) default
            if kind == "prim" and "nullableVersions" in f and "default" not in f and not f.get("ignorable"):
                if r.random() < 0.5:
                    f["default"] = "null"
                else:
                    f["ignorable"] = True
            if kind == "prim" and "nullableVersions" in f and f.get("default") not in (None, "null"):
                del f["nullableVersions"]
        if r.random() < 0.1:
            f["about"] = "generated field"
        return f

    def gen_def(self, kind: str, key: int | None):
        r = self.rng
        lo = r.choice([0, 0, 0, 0, 1, 2])               # retired early versions: valid versions need not start at 0
        hi = lo + r.choice([0, 1, 2, 3, 5, 5, 11, 13])  # two-digit versions too (string vs number ordering)
        c = r.random()
        if c < 0.25:
            flex, flex_lo = "none", None
        else:
            flex_lo = r.randint(lo, hi)
            flex, flex_lo = f"{flex_lo}+", flex_lo
        base = f"Zq{self.serial}" + "".join(r.choice(WORDS) for _ in range(2))
        name = base + {"request": "Request", "response": "Response", "header": "Hdr", "data": "Record"}[kind]
        used, tags = set(), set()
        d = {"type": kind, "name": name, "validVersions": f"{lo}-{hi}" if hi > lo else str(lo), "flexibleVersions": flex,
             "fields": [self.gen_field(lo, hi, flex_lo, used, tags, 0, {}) for _ in range(r.choice([1, 2, 3, 4, 6]))]}
        if key is not None:
            d["apiKey"] = key
        return d


def gen_set(rng: random.Random, n: int, start_serial: int = 0):
    out = []
    for i in range(n):
        g = DefGen(rng, start_serial + i)
        kind = rng.choice(["request", "response", "request", "response", "data", "header"])
        key = 1000 + start_serial + i if kind in ("request", "response") else None
        out.append(g.gen_def(kind, key))
    return out


def crafted() -> list[dict]:
    """hand-crafted definitions: every per-version attribute crossing a version boundary *inside*
    the life of a field (born untagged → tagged later, non-nullable → nullable later, visible in a
    closed range), for each family of types.  Part of every run (first set)."""
    def F(name, typ, versions="0+", **kw):
        return {"name": name, "type": typ, "versions": versions, **kw}
    late = dict(taggedVersions="2+", ignorable=True)
    d1 = {"type": "request", "name": "Zc1LateTagRequest", "apiKey": 1900, "validVersions": "0-3", "flexibleVersions": "1+",
          "fields": [
              F("Anchor", "int32"),
              F("Note", "string", tag=0, **late),
              F("Blob", "bytes", tag=1, **late),
              F("Ident", "uuid", tag=2, **late),
              F("Count", "int32", tag=3, **late),
              F("Flag", "bool", tag=4, **late),
              F("Ratio", "float64", tag=5, **late),
              F("SessionTimeoutMs", "int32", tag=6, **late),
              F("RetentionTimeMs", "int64", tag=7, **late),
              F("ExpiryTimestampMs", "int64", tag=8, **late),
              F("ErrorCode", "int16", tag=9, **late),
              F("Numbers", "[]int32", tag=10, taggedVersions="3+"),
              F("Words", "[]string", tag=11, taggedVersions="2+", ignorable=True),
              F("Parts", "[]Zc1Part", tag=12, taggedVersions="2+", fields=[
                  F("Index", "int32"), F("Label", "string", tag=0, **late), F("Late", "int16", versions="2+")]),
          ]}
    d2 = {"type": "response", "name": "Zc1LateTagResponse", "apiKey": 1900, "validVersions": "0-3", "flexibleVersions": "1+",
          "fields": [
              F("ThrottleTimeMs", "int32", versions="1+"),
              F("ErrorCode", "int16"),
              F("Owner", "string", nullableVersions="1+"),
              F("Payload", "bytes", nullableVersions="2-3"),
              F("Records", "records", versions="1-2", nullableVersions="2"),
              F("LogAppendTimeMs", "int64", versions="2+", default="-1"),
              F("Gone", "int8", versions="0-1"),
              F("Middle", "string", versions="1-2", default="abc"),
              F("Padded", "string", versions="1+", default=" n/a "),
              F("Separators", "string", versions="1+", default="key\u2028value\u2029x\u0085y", about="text with \u2028 in it"),
              F("Bom", "string", versions="1+", default="\ufeffsig"),
              F("Motto", "string", versions="1+", default="caf\u00e9 \u65e5\u672c v1-\U0001f680 \"q\" 'a' \\"),
              F("Groups", "[]Zc1Group", nullableVersions="3+", fields=[
                  F("GroupId", "string", entityType="groupId"),
                  F("Members", "[]Zc1Member", versions="1+", fields=[F("Id", "int32"), F("Type", "string", versions="2+", nullableVersions="3+")]),
                  F("State", "Zc1State", versions="2+", nullableVersions="3+", fields=[F("Code", "int8"), F("Text", "string", default="")]),
              ]),
              F("Extra", "Zc1Extra", versions="1+", taggedVersions="1+", tag=0, fields=[
                  F("Level", "int32", default="-1"), F("Name", "string", default="none")]),
          ]}
    d3 = {"type": "data", "name": "Zc2WideRecord", "validVersions": "0-12", "flexibleVersions": "10+",
          "fields": [
              F("Version", "int16"),
              F("Early", "string", versions="0-9"),
              F("Late", "string", versions="10+", nullableVersions="11+"),
              F("Eleven", "int64", versions="11+", default="0x7fffffffffffffff"),
              F("Tagged", "string", versions="3+", taggedVersions="11+", tag=0, ignorable=True),
              F("Items", "[]Zc2Item", versions="2-11", fields=[F("Key", "string"), F("Value", "bytes", versions="9+", nullableVersions="10+")]),
          ]}
    # a header-kind definition other than RequestHeader with a `ClientId` string: only the class named
    # RequestHeader writes its client id in the legacy form
    d7 = {"type": "header", "name": "Zc7ConnectionHdr", "validVersions": "0-1", "flexibleVersions": "1+",
          "fields": [F("CorrelationId", "int32"), F("ClientId", "string", nullableVersions="0+"),
                     F("SessionName", "string", versions="1+")]}
    d9 = {"type": "data", "name": "Zc9TagOrderRecord", "validVersions": "0-1", "flexibleVersions": "0+",
          "fields": [F("Anchor", "int8"),
                     F("Zed", "string", taggedVersions="0+", tag=7, ignorable=True),
                     F("Mid", "int32", taggedVersions="0+", tag=3, default="5"),
                     F("First", "[]int16", taggedVersions="0+", tag=0),
                     F("Big", "int64", taggedVersions="1+", versions="1+", tag=256, ignorable=True),
                     F("Odd", "int32", taggedVersions="0+", tag=129, ignorable=True),
                     F("Far", "int16", taggedVersions="0+", tag=16384, ignorable=True),
                     F("Edge", "int8", taggedVersions="0+", tag=127, ignorable=True),
                     F("Inner", "Zc9Inner", taggedVersions="0+", tag=1, fields=[
                         F("Bb", "int16", default="2", taggedVersions="0+", tag=4), F("Aa", "int16", default="1", taggedVersions="0+", tag=2)])]}
    d8 = {"type": "data", "name": "Zc8ClientRecord", "validVersions": "0-1", "flexibleVersions": "0+",
          "fields": [F("ClientId", "string"), F("Seq", "int64")]}
    # the two APIs the header rule singles out (ControlledShutdown = 7, ApiVersions = 18), each with
    # non-flexible and flexible versions
    # early versions retired: valid versions 1-3 (request and response), 2 (data)
    d10 = [{"type": kind, "name": "Zc10Retired" + kind.capitalize(), "apiKey": 1901, "validVersions": "1-3",
            "flexibleVersions": "2+", "fields": [F("Token", "string", versions="1+"), F("Epoch", "int32", versions="2+")]}
           for kind in ("request", "response")]
    d11 = {"type": "data", "name": "Zc11LateRecord", "validVersions": "2", "flexibleVersions": "2+",
           "fields": [F("Payload", "bytes", versions="2+")]}
    # a common structure used inside the structure of the *first* struct-typed field and again later
    # (each structure is emitted once per module), and one used from three places
    d12 = {"type": "request", "name": "Zc12HeartbeatRequest", "apiKey": 1902, "validVersions": "0-1", "flexibleVersions": "0+",
           "fields": [F("GroupId", "string"),
                      F("Assignment", "Zc12Assignment", nullableVersions="0+", default="null",
                        fields=[F("TopicPartitions", "[]Zc12TopicPartitions"), F("Epoch", "int32")]),
                      F("Pending", "[]Zc12TopicPartitions"),
                      F("Revoked", "[]Zc12TopicPartitions", versions="1+")],
           "commonStructs": [{"name": "Zc12TopicPartitions", "versions": "0+",
                              "fields": [F("TopicId", "uuid"), F("Partitions", "[]int32")]}]}
    # a tagged structure all of whose members have defaults — one of them an inline nullable structure
    # with default null — in an ignorable and in a non-ignorable variant; bool defaults in every spelling
    d13 = {"type": "data", "name": "Zc13ProbeRecord", "validVersions": "0-1", "flexibleVersions": "0+",
           "fields": [F("Anchor", "int16"),
                      F("Probe", "Zc13ProbeState", taggedVersions="0+", tag=0, ignorable=True, fields=[
                          F("Epoch", "int32", default="-1"),
                          F("Cursor", "Zc13Cursor", nullableVersions="0+", default="null",
                            fields=[F("TopicName", "string"), F("PartitionIndex", "int32")])]),
                      F("Strict", "Zc13StrictState", taggedVersions="0+", tag=1, fields=[
                          F("Level", "int8", default="3"),
                          F("Next", "Zc13Next", nullableVersions="0+", default="null", fields=[F("Id", "int64")])]),
                      F("OnLiteral", "bool", default=True), F("OnText", "bool", default="true"),
                      F("OffLiteral", "bool", default=False), F("OnUpper", "bool", default="TRUE"),
                      F("TaggedOn", "bool", taggedVersions="0+", tag=2, default=True)]}
    # two definitions (parsed one after the other) that each declare a common structure of the same
    # name with different members; in the second one it is referenced *before* its declaration by
    # another common structure (each file is its own name space; the order in which the generator
    # visits the files is the directory's, hence the symmetric pair)
    d14a = {"type": "response", "name": "Zc14AlphaResponse", "apiKey": 1903, "validVersions": "0", "flexibleVersions": "0+",
            "fields": [F("Groups", "[]Zc14Outer")],
            "commonStructs": [{"name": "Zc14Outer", "versions": "0+",
                               "fields": [F("GroupId", "string"), F("Results", "[]Zc14Result")]},
                              {"name": "Zc14Result", "versions": "0+",
                               "fields": [F("PartitionIndex", "int32"), F("ErrorCode", "int16")]}]}
    d14b = {"type": "response", "name": "Zc14BetaResponse", "apiKey": 1904, "validVersions": "0", "flexibleVersions": "0+",
            "fields": [F("Topics", "[]Zc14Wrapper")],
            "commonStructs": [{"name": "Zc14Wrapper", "versions": "0+",
                               "fields": [F("Name", "string"), F("Results", "[]Zc14Result")]},
                              {"name": "Zc14Result", "versions": "0+",
                               "fields": [F("PartitionIndex", "int32"), F("LeaderEpoch", "int32"), F("HighWatermark", "int64")]}]}
    # entity types crossed with every source of nullability: declared nullable versions, tagged and
    # ignorable without a default (implicitly None / 0), explicit null default, and as array items
    d15 = {"type": "data", "name": "Zc15EntityRecord", "validVersions": "0-2", "flexibleVersions": "1+",
           "fields": [F("Anchor", "int16"),
                      F("Owner", "string", versions="1+", taggedVersions="1+", tag=0, ignorable=True, entityType="groupId"),
                      F("Leader", "int32", versions="1+", taggedVersions="1+", tag=1, ignorable=True, entityType="brokerId"),
                      F("Topic", "string", nullableVersions="2+", entityType="topicName"),
                      F("Txn", "string", versions="1+", taggedVersions="1+", tag=2, nullableVersions="1+", default="null",
                        entityType="transactionalId"),
                      F("Producer", "int64", default="-1", entityType="producerId"),
                      F("Replicas", "[]int32", entityType="brokerId"),
                      F("Observers", "[]int32", versions="1+", taggedVersions="1+", tag=3, entityType="brokerId"),
                      F("Topics", "[]string", versions="2+", entityType="topicName"),
                      # int16 fields whose names merely *end* like the two special-cased error-code names
                      F("TopicConfigErrorCode", "int16"), F("AcknowledgeErrorCode", "int16", default="0"),
                      F("ErrorCodes", "[]int16"), F("ErrorCodeCount", "int16")]}
    out = [d1, d2, d3, d7, d8, d9, *d10, d11, d12, d13, d15]
    for key, stem in ((7, "Zc3Shutdown"), (18, "Zc4Versions")):
        for kind in ("request", "response"):
            out.append({"type": kind, "name": stem + kind.capitalize(), "apiKey": key, "validVersions": "0-4",
                        "flexibleVersions": "3+", "fields": [F("BrokerId", "int32", entityType="brokerId"),
                                                            F("Epoch", "int64", versions="2+", default="-1")]})
    return out


FLOAT_DEFAULT_TEXTS = {"Ratio": "0.1234567", "Limit": "16777217.0", "Weight": "2.718281828", "Half": "0.5",
                       "Debt": "-1.5", "Third": "0.3333333333333333", "Total": "0.30000000000000004",
                       "Big": "123456789012.25", "Nothing": "0.0", "TaggedRate": "1234567.875"}


def crafted_float_defaults() -> list[dict]:
    """float64 fields with explicit non-zero defaults (outside the subset the generator model covers: the
    harness compares the generated defaults and default bytes with the definition's text directly)"""
    fields = [{"name": n, "type": "float64", "versions": "0+", "default": t} for n, t in FLOAT_DEFAULT_TEXTS.items()]
    fields[-1].update(taggedVersions="0+", tag=0)
    return [{"type": "data", "name": "Zc16FloatRecord", "validVersions": "0", "flexibleVersions": "0+", "fields": fields}]


def crafted_same_name_commons() -> list[dict]:
    """four definitions that each declare a common structure of the same name with different members,
    referenced *before* its declaration by another common structure of the file (each file is its own
    name space).  A generation set of their own: with four of them and two header definitions, two are
    visited consecutively whatever order the directory yields."""
    def F(name, typ, versions="0+", **kw):
        return {"name": name, "type": typ, "versions": versions, **kw}
    out = []
    members = {"Alpha": [F("PartitionIndex", "int32"), F("ErrorCode", "int16")],
               "Beta": [F("PartitionIndex", "int32"), F("LeaderEpoch", "int32"), F("HighWatermark", "int64")],
               "Gamma": [F("Topic", "string"), F("Lag", "int64")],
               "Delta": [F("Flag", "bool")]}
    for n, (tag, ms) in enumerate(members.items()):
        out.append({"type": "response", "name": f"Zc14{tag}Response", "apiKey": 1910 + n, "validVersions": "0",
                    "flexibleVersions": "0+", "fields": [F("Groups", "[]Zc14Outer")],
                    "commonStructs": [{"name": "Zc14Outer", "versions": "0+",
                                       "fields": [F("GroupId", "string"), F("Results", "[]Zc14Result")]},
                                      {"name": "Zc14Result", "versions": "0+", "fields": ms}]})
    return out


def crafted_header_flex() -> list[dict]:
    """the header rule where its special cases meet flexibility: ControlledShutdown (key 7) and
    ApiVersions (key 18) definitions that are flexible from version 0 (a separate generation set:
    API keys are unique within one set)"""
    out = []
    for key, stem in ((7, "Zc5ShutdownFlex"), (18, "Zc6VersionsFlex")):
        for kind in ("request", "response"):
            out.append({"type": kind, "name": stem + kind.capitalize(), "apiKey": key, "validVersions": "0-2",
                        "flexibleVersions": "0+", "fields": [{"name": "BrokerId", "type": "int32", "versions": "0+"}]})
    return out
