"""Confirm a seeded change (patch + demo) and run checks against it.

usage: seedcheck.py <seed-id> <property> <src-dir-with patch.diff demo.py meta.txt> <check> [<check>…]
 1. fresh scratch worktree of /repo: demo passes; apply patch; test suite passes; demo fails
 2. apply the patch to /repo itself, run the listed checks (quick), restore /repo
 3. record everything in /verif/seeded/<seed-id>/ (patch.diff, demo.py, meta.json)"""
import json
import os
import shutil
import subprocess
import sys
import time

VERIF = os.path.dirname(os.path.dirname(os.path.abspath(__file__)))


def sh(cmd, cwd=None, env=None, timeout=3600):
    p = subprocess.run(cmd, shell=True, cwd=cwd, env=env, stdout=subprocess.PIPE, stderr=subprocess.STDOUT, timeout=timeout)
    return p.returncode, p.stdout.decode(errors="replace")


def main():
    sid, prop, src = sys.argv[1:4]
    checks = sys.argv[4:]
    out = os.path.join(VERIF, "seeded", sid)
    os.makedirs(out, exist_ok=True)
    for f in ("patch.diff", "demo.py"):
        shutil.copy(os.path.join(src, f), os.path.join(out, f))
    needs = open(os.path.join(src, "meta.txt")).read() if os.path.exists(os.path.join(src, "meta.txt")) else ""
    wt = f"/tmp/sv_{sid}"
    sh(f"git -C /repo worktree remove --force {wt}")
    rc, o = sh(f"git -C /repo worktree add -q {wt} HEAD")
    meta = {"seed": sid, "property": prop, "needs": needs, "ran": {}}
    try:
        if os.path.exists("/repo/src/kio/_version.py"):
            shutil.copy("/repo/src/kio/_version.py", f"{wt}/src/kio/_version.py")
        shutil.copy(os.path.join(out, "demo.py"), f"{wt}/demo.py")
        env = {**os.environ, "PYTHONPATH": f"{wt}/src"}
        rc0, o0 = sh("/venv/bin/python demo.py", cwd=wt, env=env)
        meta["ran"]["demo_without_change"] = {"rc": rc0, "tail": o0[-300:]}
        rca, oa = sh(f"git apply {out}/patch.diff", cwd=wt)
        meta["ran"]["git_apply"] = {"rc": rca, "tail": oa[-300:]}
        rct, ot = sh('/venv/bin/python -m pytest -q -p no:cacheprovider -m "not java and not integration" -n 8 2>&1 | tail -3', cwd=wt, env=env)
        meta["ran"]["test_suite_with_change"] = {"rc": rct, "tail": ot[-300:]}
        rc1, o1 = sh("/venv/bin/python demo.py", cwd=wt, env=env)
        meta["ran"]["demo_with_change"] = {"rc": rc1, "tail": o1[-300:]}
        meta["confirmed"] = (rc0 == 0 and rca == 0 and "passed" in ot and "failed" not in ot and rc1 != 0)
    finally:
        sh(f"git -C /repo worktree remove --force {wt}")
    # run the checks against the change applied to /repo itself
    meta["checks"] = {}
    rc, o = sh(f"git -C /repo apply {out}/patch.diff")
    if rc != 0:
        meta["checks"]["apply_error"] = o[-300:]
    else:
        # evidence files describe runs on the unchanged tree: keep them out of reach of seeded runs
        import tempfile
        keep = tempfile.mkdtemp(prefix="evidence_keep_", dir=os.path.join(VERIF, ".cache"))
        shutil.copytree(os.path.join(VERIF, "evidence"), os.path.join(keep, "evidence"))
        try:
            for c in checks:
                t = time.time()
                rc, o = sh(f"./check {c} --tier quick", cwd=VERIF, env={**os.environ, "VERIF_SEED": os.environ.get("VERIF_SEED", "0")})
                lines = [l for l in o.splitlines() if l.startswith("VIOLATION") or l.startswith("KNOWN-FINDING")]
                meta["checks"][c] = {"rc": rc, "lines": [l[:300] for l in lines][:4], "wall_s": round(time.time() - t, 1)}
        finally:
            sh("git -C /repo checkout -- . && git -C /repo clean -fdq src codegen")
            shutil.rmtree(os.path.join(VERIF, "evidence"))
            shutil.copytree(os.path.join(keep, "evidence"), os.path.join(VERIF, "evidence"))
            shutil.rmtree(keep)
    meta["detected_by"] = [c for c, r in meta["checks"].items() if isinstance(r, dict) and r.get("rc") == 1]
    meta["check_errors"] = [c for c, r in meta["checks"].items() if isinstance(r, dict) and r.get("rc") not in (0, 1)]
    json.dump(meta, open(os.path.join(out, "meta.json"), "w"), indent=1)
    print(json.dumps({"seed": sid, "confirmed": meta.get("confirmed"), "detected_by": meta["detected_by"], "check_errors": meta["check_errors"],
                      "checks": {c: (r.get("rc"), r.get("lines", [])[:1]) for c, r in meta["checks"].items() if isinstance(r, dict)}}, indent=1))


if __name__ == "__main__":
    main()
