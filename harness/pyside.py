"""Calling the real kio code in-process and canonicalising what it does."""
from __future__ import annotations

import io
import os
import sys

HERE = os.path.dirname(os.path.abspath(__file__))
sys.path.insert(0, HERE)
import kioload  # noqa: F401,E402  (puts /repo/src first on sys.path)
import values  # noqa: E402


def exc_class(e: BaseException) -> str:
    from kio.serial.errors import BufferUnderflow, SerialError

    if isinstance(e, BufferUnderflow):
        return "underflow"
    if isinstance(e, (SerialError, ValueError, OverflowError)):
        return "rejected"
    return "internal"


def run_reader(reader, data: bytes) -> str:
    """'ok <consumed> <value>' or 'err <class> <ExcName>'"""
    buf = io.BytesIO(data)
    try:
        v = reader(buf)
    except Exception as e:  # noqa: BLE001
        return f"err {exc_class(e)} {type(e).__name__}"
    return f"ok {buf.tell()} {values.render(values.abstract(v))}"


def run_writer(writer, value) -> str:
    buf = io.BytesIO()
    try:
        writer(buf, value)
    except Exception as e:  # noqa: BLE001
        return f"err {exc_class(e)} {type(e).__name__}"
    return f"ok {values.hex_tok(buf.getvalue())}"


def same_outcome(py: str, lean: str, coarse_err: bool = True) -> bool:
    """compare replies; errors only by class (underflow / rejected / internal)"""
    if py.startswith("ok") or lean.startswith("ok"):
        return py == lean
    if lean.startswith("err unspecified"):
        return True
    return py.split()[1] == lean.split()[1]


def same_enc_outcome(py: str, lean: str) -> bool:
    """encode outcomes: ok+bytes, or raised (class not compared)"""
    if lean.startswith("err unspecified"):
        return True
    if py.startswith("ok") or lean.startswith("ok"):
        return py == lean
    return True
