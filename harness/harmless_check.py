#!/usr/bin/env python3
"""Run the quick checks against behaviour-preserving changes (false-alarm test).

usage: harmless_check.py <patch-dir> [check ids…]

For every `*.diff` in <patch-dir>: apply it to /repo, run the given checks (default: all 19), undo it.
Prints one line per (patch, check) that did not exit 0, and a summary.  /repo is restored after each
patch and the evidence directory is put back as it was (evidence describes the unchanged tree).
"""
from __future__ import annotations

import glob
import json
import os
import shutil
import subprocess
import sys
import tempfile
import time

VERIF = os.path.dirname(os.path.dirname(os.path.abspath(__file__)))
ALL = [f"C{n:02d}" for n in range(1, 20)]


def sh(cmd, cwd=None, env=None):
    p = subprocess.run(cmd, shell=True, cwd=cwd, stdout=subprocess.PIPE, stderr=subprocess.STDOUT, env=env)
    return p.returncode, p.stdout.decode(errors="replace")


def main():
    pdir = sys.argv[1]
    checks = [c.upper() for c in sys.argv[2:]] or ALL
    keep = tempfile.mkdtemp(prefix="evidence_keep_", dir=os.path.join(VERIF, ".cache"))
    shutil.copytree(os.path.join(VERIF, "evidence"), os.path.join(keep, "evidence"))
    results = {}
    try:
        for patch in sorted(glob.glob(os.path.join(pdir, "*.diff"))):
            name = os.path.basename(patch)
            rc, o = sh(f"git -C /repo apply {patch}")
            if rc != 0:
                results[name] = {"apply_error": o[-300:]}
                continue
            try:
                res = {}
                for c in checks:
                    t = time.time()
                    rc, o = sh(f"./check {c} --tier quick", cwd=VERIF)
                    if rc != 0:
                        lines = [l[:400] for l in o.splitlines() if l.startswith(("VIOLATION", "INFRA")) or "Error" in l][:4]
                        res[c] = {"rc": rc, "lines": lines}
                        print(f"{name} {c}: rc={rc} {lines[:2]}", flush=True)
                results[name] = res
                print(f"{name}: {'clean' if not res else 'ALARMS ' + ','.join(res)}", flush=True)
            finally:
                sh("git -C /repo checkout -- . && git -C /repo clean -fdq src codegen")
    finally:
        shutil.rmtree(os.path.join(VERIF, "evidence"))
        shutil.copytree(os.path.join(keep, "evidence"), os.path.join(VERIF, "evidence"))
        shutil.rmtree(keep)
    json.dump(results, open(os.path.join(VERIF, ".cache", "harmless_results.json"), "w"), indent=1)
    print(json.dumps({k: sorted(v) for k, v in results.items()}, indent=1))


if __name__ == "__main__":
    main()
