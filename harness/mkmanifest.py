"""Regenerate MANIFEST.json from the table below (kept valid at all times)."""
import json, os
VERIF = os.path.dirname(os.path.dirname(os.path.abspath(__file__)))
props = [json.loads(l) for l in open(os.path.join(VERIF, "properties.jsonl"))]

# id -> (technique, level text, level note, design ref); absent = not yet claimed
CLAIMED = {
    "C11": ("Lean 4 theorems on the primitive codec model + differential correspondence on all 66 functions",
            "Universal Lean theorems (round trip with suffix, minimal varints, zig-zag bijection, out-of-domain errors) about a hand model of kio.serial.readers/writers; the model is tied to the code by a differential run over every public function (exhaustive on small domains).",
            "Lean kernel; axioms ⊆ {propext, Classical.choice, Quot.sound}; hand model tied by correspondence; CPython struct/int semantics trusted.", "§6.11"),
}
PENDING_REASON = "check not built yet in this revision (work in progress; see DESIGN.md §9 build order)"

checks, na = [], []
for p in props:
    pid = p["id"]
    if pid in CLAIMED:
        tech, text, note, ref = CLAIMED[pid]
        checks.append({
            "property_id": pid,
            "quick_cmd": f"./check {pid} --tier quick",
            "thorough_cmd": f"./check {pid} --tier thorough",
            "evidence_file": f"evidence/{pid}.json",
            "replay_cmd_template": f"./check {pid} --replay {{path}}",
            "engine": "lean-model+correspondence",
            "level_claimed": {"category": "proof", "text": text, "design_ref": ref},
            "level_note": note,
            "technique": tech,
        })
    else:
        na.append({"property_id": pid, "reason": PENDING_REASON})
doc = {
    "version": 1,
    "setup_cmd": "./setup.sh",
    "hooks": {
        "guard": "KIO_VERIF",
        "enable": "no source hooks are needed: all observation is through public APIs and wrapper objects",
        "baseline_off_cmd": "cd /repo && /venv/bin/python -m pytest -q -p no:cacheprovider --timeout=900 -m 'not java and not integration'",
        "source_commits": [],
        "add_only": True,
    },
    "engines": [{
        "name": "lean-model+correspondence", "path": "lean/ + harness/",
        "serves_properties": sorted(CLAIMED),
        "kind_free_text": "Lean 4 model (Kio/Model, Kio/Spec), data regenerated from /repo by harness/translate.py, theorems in Kio/Props, differential harness driving `lake env lean --run Driver.lean`",
    }],
    "checks": checks,
    "not_applicable": na,
    "notes": "See DESIGN.md. Fix commits in /repo are listed in known_findings.json.",
}
json.dump(doc, open(os.path.join(VERIF, "MANIFEST.json"), "w"), indent=1)
print(len(checks), "claimed;", len(na), "pending")
