"""Regenerate MANIFEST.json from the table below (kept valid at all times)."""
import json, os
VERIF = os.path.dirname(os.path.dirname(os.path.abspath(__file__)))
props = [json.loads(l) for l in open(os.path.join(VERIF, "properties.jsonl"))]

# id -> (technique, level text, level note, design ref); absent = not yet claimed
CLAIMED = {
    "C16": ("Lean 4: executable model of the generator (Gen) proved to agree with an independent reading of a definition (classes, order, names, Kafka/struct types, tags, class variables, nullability except primitive arrays) for every definition, under three side conditions each shown necessary by a kernel-checked counterexample + the real generator run on PRNG-generated definitions",
            "Kio.C16.classes / fields / class_vars / header_rule / nullability_partial for every MsgDef on which generation succeeds; primarr_nullable_witness is the listed known finding C16/H; pinned_agree shows the hypotheses hold on all 666 real (definition, version) pairs. On the code: codegen.generate_schema + build_index run in a scratch tree on 40 (quick) generated definitions per run; generated modules imported in a subprocess and compared with the independent reading and with Gen; instances of the generated classes encoded by the real writer and compared with Spec.enc of Gen's schema; the index must list exactly the generated modules. For the explicit syntactic predicate Gen.Supported (Kio/Gen/Supported.lean): Kio.C16.coherent (every generated class is Schema.wf), bytes_follow_spec (encoder bytes = Spec.enc, via C02), defaults, supported_names_distinct are proved for every supported definition; pinned_supported (>= 600 of 666 pinned pairs); every definition the harness draws or hand-crafts (defgen.crafted: per-version crossings, keys 7/18) is classified by the driver. Partial: primitive-array nullability (known finding C16/H); text emission and pydantic are modelled at descriptor level.",
            "Lean kernel; same axioms; the supported subset is Gen.Supported (DESIGN.md §10.2); harness/defgen.py draws from it.", "§6.16"),
    "C04": ("Lean 4: executable model of the generator (Gen) evaluated by the kernel on the pinned definitions and compared class-by-class, field-by-field with the regenerated tables (16 parallel shards); independent API-table and error-code pins; the real generator re-run on the pinned definitions in a scratch tree",
            "Kio.C04.gen_pinned_eq_shipped (decide +kernel): every walked module equals Gen(pinned definition, version) in names, order, annotations, nullability, tags, defaults, flexibility, key, header and dataclass options; Kio.C04.all_defs_generated, api_table, error_codes. On the code: codegen.generate_schema + build_index run on the 186 pinned definitions outside /repo, output imported in a subprocess and compared with the shipped package; Gen compared with that output.",
            "Lean kernel; same axioms; the pinned definitions are RECONSTRUCTED from the pristine tree (upstream JSON unavailable offline): fidelity to upstream only through the independent API table pin (DESIGN §6.4).", "§6.4"),
    "C19": ("Lean 4: rely/guarantee proof on a model of the functools.cache'd builders (every build under arbitrary invariant-preserving interference returns the plan of its key) + histories, injected stream failures at every position and a deterministic source-line thread scheduler on the real code",
            "Kio.C19.build_correct / history_independent / schedule_independent / io_failure over every history and interleaving of the model. On the code: shuffled create/use histories over classes sharing nested types; OSError injected at every write/read position followed by reuse of the same cached callable; all single-preemption points (strided in quick) and sampled two-preemption schedules of 4 cold-cache two-thread scenarios. Partial: atomicity of cache operations and absence of other shared state are CPython facts, exercised not proved.",
            "Lean kernel; same axioms; CPython runtime (GIL granularity, functools.cache) modelled.", "§6.19"),
    "C03": ("Lean 4 theorem over a relational specification of conforming encodings (mutual inductive predicate Spec.Conforms: per-occurrence freedom to send or omit defaults and to add unknown tagged entries), executable generators proved to lie inside it + wire-first differential run",
            "Kio.C03.accepts_conforming: for every coherent class, wire value w and bytes bs with Spec.Conforms s w bs, dec (bs ++ rest) = (w, rest); foreign_is_conforming / mixed_is_conforming: the outputs of the executable generators Spec.encForeign (uniform pattern) and Spec.encMixed (seeded per-occurrence choices) are conforming; conforms_examples (non-vacuity, strictness, a negative). On the code: encodings produced by both generators in Lean (send-defaults on/off, 0–300 unknown tags incl. multi-byte tag numbers and 100 kB payloads, all tagged fields absent at the model's defaults) are fed to the real reader and must decode to exactly the wire values.",
            "Lean kernel; same axioms; Spec.Conforms is my reading of KIP-482; the executable generators only sample it.", "§6.3"),
    "C08": ("Lean 4: header rule stated once as a function, instance theorem on the regenerated class/index tables by kernel evaluation, universal lemmas reading the predicate back as a proposition + exhaustive run on all 646 payload classes",
            "Kio.C08.shipped (decide +kernel on the regenerated tables): every request/response class advertises the header the Kafka rule names; header classes have the right version/flexibility; the index model pairs requests and responses mutually inversely with equal key, version, flexibility (Kio.C08.shipped_request/response). On the code: every payload class against an independent Python statement of the rule, and load_response_from_request / load_request_from_response identity.",
            "Lean kernel; same axioms; tables regenerated by the translator (trusted to print what it introspected); kio.index modelled by hand and compared on every entry.", "§6.8"),
    "C09": ("Lean 4: index model with universal unknown-key / unknown-entity theorems (all integers, all names) + instance theorem on the regenerated index and the independently walked module list + exhaustive and near-miss differential run",
            "Kio.C09.shipped: every walked module has an index entry resolving to it and its top-level class, every index leaf points at a walked module, no duplicates, keys↔names one-to-one and exactly the payload APIs. Kio.C09.unknown_key / unknown_entity / nothing_else hold for every table and every argument. On the code: all 666 modules through every load_* function, every key±1, version min-1/max+1, every other entity type, random ints/strings.",
            "Lean kernel; same axioms; pkgutil.resolve_name / import machinery trusted; a path that fails to import is reported by the translator.", "§6.9"),
    "C12": ("Lean 4 theorems on a model of the phantom types (membership ⇔ range with regenerated bounds = documented bounds, constructor law, nesting, writers accept every member) + boundary-grid differential run",
            "Kio.C12.*: membership iff in the closed range / finite / ms-precision aware non-negative; constructor = identity or TypeError; nesting i8⊆i16⊆i32⊆i64, u8⊆…⊆u64; members of fixed-width, duration and timestamp types are accepted by the writers and read back (from C11). Bounds regenerated from the source and kernel-compared with the documented ones. On the code: isinstance / T(v) / T.parse(v) / writer+reader on boundary grids.",
            "Lean kernel; same axioms; `timestamp() >= 0` float comparison modelled as sign of the µs count.", "§6.12"),
    "C13": ("Lean 4: decidable coherence predicate, instance theorem on all regenerated classes by kernel evaluation, universal theorem coherent ⇒ reader and writer derivable + exhaustive per-field differential run",
            "Kio.C13.shipped_coherent / shipped_defaults (decide +kernel over 1629 classes, 5094 fields), Kio.C13.derivable (∀ coherent schema), dispatch_tables and implicit_defaults (the model's get_reader/get_writer tables and primitive zero values kernel-compared with rows the translator observes by calling the code entry by entry). On the code: entity_reader/entity_writer construction for every class; classify_field / is_optional / get_field_tag / get_tagged_field_default compared with the model on every field.",
            "Lean kernel; same axioms; translator maps annotations to shapes with typing.get_origin/get_args (documented introspection).", "§6.13"),
    "C14": ("Lean 4: decidable family-coherence predicate, instance theorem on the regenerated module table by kernel evaluation + the same predicate re-evaluated in Python on live classes",
            "Kio.C14.shipped: per module all classes share version/flexibility/key/header and the path = (snake-cased top-level class name minus _request/_response, version, kind); per (API, kind) contiguous versions, monotone flexibility, constant key; key unique to the API; request versions = response versions.",
            "Lean kernel; same axioms; the snake-case function is modelled (ASCII) and checked on the generator's documented examples.", "§6.14"),
    "C15": ("Lean 4: abstract object model of dataclass semantics with theorems for frozen+eq+slots classes, instance theorem (all regenerated classes have those parameters and immutable field types) + operation sequences on real instances",
            "Kio.C15.immutable / mutation_rejected / hash_consistent / copies_equal / no_new_attributes over any op sequence in the object model; Kio.C15.shipped_params and shipped_record_params by kernel evaluation (1629 classes and the 4 record classes: frozen/eq/slots, dataclass-generated __hash__, every field immutable and compared). On the code: setattr/delattr/new attribute/hash/==/copy/deepcopy/replace/pickle on generated and on *decoded* instances of every class (BytesIO, short-read source, payloads up to 1 MiB) and the record classes; pickles shipped to child processes with other hash seeds. Partial: that CPython's dataclasses implements the modelled semantics is trusted and exercised, not proved.",
            "Lean kernel; same axioms; CPython dataclass semantics modelled.", "§6.15"),
    "C02": ("Lean 4 theorem: writer model = independent declarative statement of the wire format (both directions) + real writer bytes compared with the spec evaluated in Lean",
            "Kio.C02.impl_eq_spec_ok / spec_eq_impl_ok / shipped: for every coherent class and well-typed canonical instance the encoder emits exactly Spec.enc (independent of the dispatch tables/plans/staging), and raises only where there is no encoding; unconditional on the 1629 regenerated classes (side conditions kernel-checked). On the code: entity_writer bytes vs Spec.enc for real instances, plus hand-assembled vectors.",
            "Lean kernel; same axioms; Spec.enc written by me from the protocol guide; general theorem has two side conditions (no tagged nullable entity array, < 2^35 fields) that hold for every shipped class.", "§6.2"),
    "C05": ("Lean 4 corollary of C01+C02 (canonical encodings), re-encodability theorem for arbitrary accepted input + wire-first differential run",
            "Kio.C05.lossless / decoded_is_wire / idempotent_canonical: for every canonical encoding Spec.enc s w over the full wire domain, decode yields w, consumes exactly the encoding, re-encoding gives the same bytes, and decode∘encode is idempotent. On the code: canonical encodings produced by the Lean spec (ms timestamps, >2^53 ms durations, -0.0, NaN payloads) are decoded and re-encoded by the real code.",
            "Lean kernel; same axioms; Kio.C05.reencodable: anything the decoder returns re-encodes (arbitrary accepted input), under taggedDefaultsRefl and 3*len < 2^35, kernel-checked on every shipped class (shipped_reencodable_conditions).", "§6.5"),
    "C06": ("Lean 4 theorem by structural induction (prefix ⇒ underflow through every combinator) + every cut position on real encodings",
            "Kio.C06.prefix_underflow: for every coherent class, well-typed canonical instance and cut k < len, dec (take k) = error underflow. On the code: every cut of generated encodings must raise BufferUnderflow; a third of the cuts are also compared with the model.",
            "Lean kernel; same axioms; that a real source returns short data rather than blocking is the read(n) contract of the source, outside kio.", "§6.6"),
    "C07": ("Lean 4 theorem by induction on the message list from C01's suffix form + instrumented sinks/sources on the real code",
            "Kio.C07.stream / header_payload: any sequence of messages back to back, with arbitrary trailing bytes, decodes in sequence. The model has no sink/source state; on the code the same sequences are written to BytesIO, a write-only sink and an asyncio.StreamWriter (bytes must coincide, only write() may be called) and read from a read-only source (only read(n≥0)).",
            "Lean kernel; same axioms; sink/source independence is a statement about CPython objects: exercised, not proved.", "§6.7"),
    "C17": ("Lean 4 theorems: writer model = independent v2 layout of correctly derived parameters; independent decoder inverts it; CRC covers offset 21..end + differential run",
            "Kio.C17.layout / complete / independent_decode / crc_covers / spec_roundtrip for every non-empty record list with ms timestamps; CRC-32C modelled bitwise over BitVec 32 (check value proved). On the code: write_batch vs Spec.batchBytes(derive) and Spec.decBatch on generated batches.",
            "Lean kernel; same axioms; crc32c C extension assumed = bitwise model (compared on every batch); float ms conversion exact by ms_exact.", "§6.17"),
    "C18": ("Lean 4 theorems: what read returns for every reference batch (all fields exact, record timestamps floored to seconds — the exact content of known finding I; float fact proved), faithful read for whole seconds, magic, any single-byte corruption from the CRC field on ⇒ error (CRC-32C linearity/injectivity), every truncation ⇒ error + all bit flips / all cuts / CRC-colliding truncation on the real reader",
            "Kio.C18.read_spec_floor / read_spec_partial / magic / byte_corruption / truncation / crc_byte_change; the full-strength timestamp claim is false of the code (timestamp_ms_lost_witness) and is the listed known finding C18/I. On the code: reference encodings (incl. compacted, zero-record, many-header, minimal-record and megabyte batches) + 4 real-broker fixtures × identity, write-back compared with the model's prepared-batch writer, wrong magic, every bit flip from byte 17, every cut, forged CRC-colliding truncation, other time zones / -O in child processes.",
            "Lean kernel; same axioms; known finding C18/I (milliseconds of record timestamps dropped; pinned by the existing tests).", "§6.18"),
    "C01": ("Lean 4 theorem by mutual structural induction over the schema type + kernel-checked instance on the regenerated class table + differential correspondence",
            "Kio.C01.roundtrip_eq: for every coherent schema, every well-typed value (typedOk) and every suffix, decoding enc v ++ rest consumes exactly the encoding and yields a value Python-equal (pyEq) to v, namely canon v (roundtrip_canon); roundtrip: structural equality under the TaggedCanon clause; negative_zero_witness shows the generalisation is strict; Kio.C01.shipped_coherent: all 1629 regenerated classes are coherent (decide +kernel). The model's enc/dec are tied to entity_writer/entity_reader by a differential run (real instances, three tails) on a seed-rotated subset of classes (all classes in thorough).",
            "Lean kernel; axioms ⊆ {propext, Classical.choice, Quot.sound}; translator + correspondence harness; CPython float ops = fl53/pyRound model; the TaggedCanon restriction of `roundtrip` is lifted by `roundtrip_eq`; environment variants (TZ, -O, hash seed) exercised in child processes, not modelled.", "§6.1"),
    "C10": ("Lean 4 theorems (error classes, suffix consumption, linear step bound on an instrumented decoder) + mutation/random differential correspondence on all classes",
            "Kio.C10.errors_allowed / consumes_prefix for every coherent schema and every byte string; linear_steps_all: the instrumented decoder returns what the decoder returns and takes <= 2*|input|+1 steps on EVERY input (constant attained; huge_count_is_cheap); instance on the 1629 regenerated classes; keyError_reachable_when_not_skipping documents the repaired defect. Correspondence: ~14 malformed inputs per class (quick) through the real reader vs the model, plus direct evaluation (no internal exception class, consumed ≤ given, re-encodable, wall clock).",
            "Lean kernel; same axioms; re-encodability is Kio.C05.reencodable; wall-clock and CPU-scaling probes on the code complement the step bound (the model counts steps, not seconds).", "§6.10"),
    "C11": ("Lean 4 theorems on the primitive codec model + differential correspondence on all 66 functions",
            "Universal Lean theorems (round trip with suffix, minimal varints, zig-zag bijection, out-of-domain errors) about a hand model of kio.serial.readers/writers; the model is tied to the code by a differential run over every public function (exhaustive on small domains).",
            "Lean kernel; axioms ⊆ {propext, Classical.choice, Quot.sound}; hand model tied by correspondence; CPython struct/int semantics trusted.", "§6.11"),
}
PENDING_REASON = "check not built yet in this revision (work in progress; see DESIGN.md §9 build order)"

checks, na = [], []
for p in props:
    pid = p["id"]
    if pid in CLAIMED:
        tech, text, note, ref = CLAIMED[pid]
        checks.append({
            "property_id": pid,
            "quick_cmd": f"./check {pid} --tier quick",
            "thorough_cmd": f"./check {pid} --tier thorough",
            "evidence_file": f"evidence/{pid}.json",
            "replay_cmd_template": f"./check {pid} --replay {{path}}",
            "engine": "lean-model+correspondence",
            "level_claimed": {"category": "proof", "text": text, "design_ref": ref},
            "level_note": note,
            "technique": tech,
        })
    else:
        na.append({"property_id": pid, "reason": PENDING_REASON})
doc = {
    "version": 1,
    "setup_cmd": "./setup.sh",
    "hooks": {
        "guard": "KIO_VERIF",
        "enable": "no source hooks are needed: all observation is through public APIs and wrapper objects",
        "baseline_off_cmd": "cd /repo && /venv/bin/python -m pytest -q -p no:cacheprovider --timeout=900 -m 'not java and not integration'",
        "source_commits": [],
        "add_only": True,
    },
    "engines": [{
        "name": "lean-model+correspondence", "path": "lean/ + harness/",
        "serves_properties": sorted(CLAIMED),
        "kind_free_text": "Lean 4 model (Kio/Model, Kio/Spec), data regenerated from /repo by harness/translate.py, theorems in Kio/Props, differential harness driving `lake env lean --run Driver.lean`",
    }],
    "checks": checks,
    "not_applicable": na,
    "notes": "See DESIGN.md. Fix commits in /repo are listed in known_findings.json.",
}
json.dump(doc, open(os.path.join(VERIF, "MANIFEST.json"), "w"), indent=1)
print(len(checks), "claimed;", len(na), "pending")
