"""Regenerate MANIFEST.json from the table below (kept valid at all times)."""
import json, os
VERIF = os.path.dirname(os.path.dirname(os.path.abspath(__file__)))
props = [json.loads(l) for l in open(os.path.join(VERIF, "properties.jsonl"))]

# id -> (technique, level text, level note, design ref); absent = not yet claimed
CLAIMED = {
    "C02": ("Lean 4 theorem: writer model = independent declarative statement of the wire format (both directions) + real writer bytes compared with the spec evaluated in Lean",
            "Kio.C02.impl_eq_spec_ok / spec_eq_impl_ok / shipped: for every coherent class and well-typed canonical instance the encoder emits exactly Spec.enc (independent of the dispatch tables/plans/staging), and raises only where there is no encoding; unconditional on the 1629 regenerated classes (side conditions kernel-checked). On the code: entity_writer bytes vs Spec.enc for real instances, plus hand-assembled vectors.",
            "Lean kernel; same axioms; Spec.enc written by me from the protocol guide; general theorem has two side conditions (no tagged nullable entity array, < 2^35 fields) that hold for every shipped class.", "§6.2"),
    "C05": ("Lean 4 corollary of C01+C02 (canonical encodings) + wire-first differential run",
            "Kio.C05.lossless / decoded_is_wire / idempotent_canonical: for every canonical encoding Spec.enc s w over the full wire domain, decode yields w, consumes exactly the encoding, re-encoding gives the same bytes, and decode∘encode is idempotent. On the code: canonical encodings produced by the Lean spec (ms timestamps, >2^53 ms durations, -0.0, NaN payloads) are decoded and re-encoded by the real code.",
            "Lean kernel; same axioms; 'anything the decoder returns re-encodes' is proved only for canonical inputs, checked on the code for arbitrary accepted inputs (C10 harness).", "§6.5"),
    "C06": ("Lean 4 theorem by structural induction (prefix ⇒ underflow through every combinator) + every cut position on real encodings",
            "Kio.C06.prefix_underflow: for every coherent class, well-typed canonical instance and cut k < len, dec (take k) = error underflow. On the code: every cut of generated encodings must raise BufferUnderflow; a third of the cuts are also compared with the model.",
            "Lean kernel; same axioms; that a real source returns short data rather than blocking is the read(n) contract of the source, outside kio.", "§6.6"),
    "C07": ("Lean 4 theorem by induction on the message list from C01's suffix form + instrumented sinks/sources on the real code",
            "Kio.C07.stream / header_payload: any sequence of messages back to back, with arbitrary trailing bytes, decodes in sequence. The model has no sink/source state; on the code the same sequences are written to BytesIO, a write-only sink and an asyncio.StreamWriter (bytes must coincide, only write() may be called) and read from a read-only source (only read(n≥0)).",
            "Lean kernel; same axioms; sink/source independence is a statement about CPython objects: exercised, not proved.", "§6.7"),
    "C17": ("Lean 4 theorems: writer model = independent v2 layout of correctly derived parameters; independent decoder inverts it; CRC covers offset 21..end + differential run",
            "Kio.C17.layout / complete / independent_decode / crc_covers / spec_roundtrip for every non-empty record list with ms timestamps; CRC-32C modelled bitwise over BitVec 32 (check value proved). On the code: write_batch vs Spec.batchBytes(derive) and Spec.decBatch on generated batches.",
            "Lean kernel; same axioms; crc32c C extension assumed = bitwise model (compared on every batch); float ms conversion exact by ms_exact.", "§6.17"),
    "C18": ("Lean 4 theorems: faithful read (partial: whole-second timestamps), magic, any single-byte corruption from the CRC field on ⇒ error (CRC-32C linearity/injectivity), every truncation ⇒ error + all bit flips / all cuts / CRC-colliding truncation on the real reader",
            "Kio.C18.read_spec_partial / magic / byte_corruption / truncation / crc_byte_change; the full-strength timestamp claim is false of the code (timestamp_ms_lost_witness) and is the listed known finding C18/I. On the code: reference encodings + 4 real-broker fixtures × identity, wrong magic, every bit flip from byte 17, every cut, forged CRC-colliding truncation.",
            "Lean kernel; same axioms; known finding C18/I (milliseconds of record timestamps dropped; pinned by the existing tests).", "§6.18"),
    "C01": ("Lean 4 theorem by mutual structural induction over the schema type + kernel-checked instance on the regenerated class table + differential correspondence",
            "Kio.C01.roundtrip: for every coherent schema, every well-typed canonical value and every suffix, dec (enc v ++ rest) = (v, rest); Kio.C01.shipped_coherent: all 1629 regenerated classes are coherent (decide +kernel). The model's enc/dec are tied to entity_writer/entity_reader by a differential run (real instances, three tails) on a seed-rotated subset of classes (all classes in thorough).",
            "Lean kernel; axioms ⊆ {propext, Classical.choice, Quot.sound}; translator + correspondence harness; CPython float ops = fl53/pyRound model; restriction TaggedCanon (a tagged value == its default is the default itself).", "§6.1"),
    "C10": ("Lean 4 theorems (error classes, suffix consumption, linear step bound on an instrumented decoder) + mutation/random differential correspondence on all classes",
            "Kio.C10.errors_allowed / consumes_prefix / linear_steps for every coherent schema and every byte string; instance on the 1629 regenerated classes; keyError_reachable_when_not_skipping documents the repaired defect. Correspondence: ~14 malformed inputs per class (quick) through the real reader vs the model, plus direct evaluation (no internal exception class, consumed ≤ given, re-encodable, wall clock).",
            "Lean kernel; same axioms; re-encodability and the time bound on *failing* decodes are checked on the code only (not proved).", "§6.10"),
    "C11": ("Lean 4 theorems on the primitive codec model + differential correspondence on all 66 functions",
            "Universal Lean theorems (round trip with suffix, minimal varints, zig-zag bijection, out-of-domain errors) about a hand model of kio.serial.readers/writers; the model is tied to the code by a differential run over every public function (exhaustive on small domains).",
            "Lean kernel; axioms ⊆ {propext, Classical.choice, Quot.sound}; hand model tied by correspondence; CPython struct/int semantics trusted.", "§6.11"),
}
PENDING_REASON = "check not built yet in this revision (work in progress; see DESIGN.md §9 build order)"

checks, na = [], []
for p in props:
    pid = p["id"]
    if pid in CLAIMED:
        tech, text, note, ref = CLAIMED[pid]
        checks.append({
            "property_id": pid,
            "quick_cmd": f"./check {pid} --tier quick",
            "thorough_cmd": f"./check {pid} --tier thorough",
            "evidence_file": f"evidence/{pid}.json",
            "replay_cmd_template": f"./check {pid} --replay {{path}}",
            "engine": "lean-model+correspondence",
            "level_claimed": {"category": "proof", "text": text, "design_ref": ref},
            "level_note": note,
            "technique": tech,
        })
    else:
        na.append({"property_id": pid, "reason": PENDING_REASON})
doc = {
    "version": 1,
    "setup_cmd": "./setup.sh",
    "hooks": {
        "guard": "KIO_VERIF",
        "enable": "no source hooks are needed: all observation is through public APIs and wrapper objects",
        "baseline_off_cmd": "cd /repo && /venv/bin/python -m pytest -q -p no:cacheprovider --timeout=900 -m 'not java and not integration'",
        "source_commits": [],
        "add_only": True,
    },
    "engines": [{
        "name": "lean-model+correspondence", "path": "lean/ + harness/",
        "serves_properties": sorted(CLAIMED),
        "kind_free_text": "Lean 4 model (Kio/Model, Kio/Spec), data regenerated from /repo by harness/translate.py, theorems in Kio/Props, differential harness driving `lake env lean --run Driver.lean`",
    }],
    "checks": checks,
    "not_applicable": na,
    "notes": "See DESIGN.md. Fix commits in /repo are listed in known_findings.json.",
}
json.dump(doc, open(os.path.join(VERIF, "MANIFEST.json"), "w"), indent=1)
print(len(checks), "claimed;", len(na), "pending")
