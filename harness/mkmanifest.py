"""Regenerate MANIFEST.json from the table below (kept valid at all times)."""
import json, os
VERIF = os.path.dirname(os.path.dirname(os.path.abspath(__file__)))
props = [json.loads(l) for l in open(os.path.join(VERIF, "properties.jsonl"))]

# id -> (technique, level text, level note, design ref); absent = not yet claimed
CLAIMED = {
    "C01": ("Lean 4 theorem by mutual structural induction over the schema type + kernel-checked instance on the regenerated class table + differential correspondence",
            "Kio.C01.roundtrip: for every coherent schema, every well-typed canonical value and every suffix, dec (enc v ++ rest) = (v, rest); Kio.C01.shipped_coherent: all 1629 regenerated classes are coherent (decide +kernel). The model's enc/dec are tied to entity_writer/entity_reader by a differential run (real instances, three tails) on a seed-rotated subset of classes (all classes in thorough).",
            "Lean kernel; axioms ⊆ {propext, Classical.choice, Quot.sound}; translator + correspondence harness; CPython float ops = fl53/pyRound model; restriction TaggedCanon (a tagged value == its default is the default itself).", "§6.1"),
    "C10": ("Lean 4 theorems (error classes, suffix consumption, linear step bound on an instrumented decoder) + mutation/random differential correspondence on all classes",
            "Kio.C10.errors_allowed / consumes_prefix / linear_steps for every coherent schema and every byte string; instance on the 1629 regenerated classes; keyError_reachable_when_not_skipping documents the repaired defect. Correspondence: ~14 malformed inputs per class (quick) through the real reader vs the model, plus direct evaluation (no internal exception class, consumed ≤ given, re-encodable, wall clock).",
            "Lean kernel; same axioms; re-encodability and the time bound on *failing* decodes are checked on the code only (not proved).", "§6.10"),
    "C11": ("Lean 4 theorems on the primitive codec model + differential correspondence on all 66 functions",
            "Universal Lean theorems (round trip with suffix, minimal varints, zig-zag bijection, out-of-domain errors) about a hand model of kio.serial.readers/writers; the model is tied to the code by a differential run over every public function (exhaustive on small domains).",
            "Lean kernel; axioms ⊆ {propext, Classical.choice, Quot.sound}; hand model tied by correspondence; CPython struct/int semantics trusted.", "§6.11"),
}
PENDING_REASON = "check not built yet in this revision (work in progress; see DESIGN.md §9 build order)"

checks, na = [], []
for p in props:
    pid = p["id"]
    if pid in CLAIMED:
        tech, text, note, ref = CLAIMED[pid]
        checks.append({
            "property_id": pid,
            "quick_cmd": f"./check {pid} --tier quick",
            "thorough_cmd": f"./check {pid} --tier thorough",
            "evidence_file": f"evidence/{pid}.json",
            "replay_cmd_template": f"./check {pid} --replay {{path}}",
            "engine": "lean-model+correspondence",
            "level_claimed": {"category": "proof", "text": text, "design_ref": ref},
            "level_note": note,
            "technique": tech,
        })
    else:
        na.append({"property_id": pid, "reason": PENDING_REASON})
doc = {
    "version": 1,
    "setup_cmd": "./setup.sh",
    "hooks": {
        "guard": "KIO_VERIF",
        "enable": "no source hooks are needed: all observation is through public APIs and wrapper objects",
        "baseline_off_cmd": "cd /repo && /venv/bin/python -m pytest -q -p no:cacheprovider --timeout=900 -m 'not java and not integration'",
        "source_commits": [],
        "add_only": True,
    },
    "engines": [{
        "name": "lean-model+correspondence", "path": "lean/ + harness/",
        "serves_properties": sorted(CLAIMED),
        "kind_free_text": "Lean 4 model (Kio/Model, Kio/Spec), data regenerated from /repo by harness/translate.py, theorems in Kio/Props, differential harness driving `lake env lean --run Driver.lean`",
    }],
    "checks": checks,
    "not_applicable": na,
    "notes": "See DESIGN.md. Fix commits in /repo are listed in known_findings.json.",
}
json.dump(doc, open(os.path.join(VERIF, "MANIFEST.json"), "w"), indent=1)
print(len(checks), "claimed;", len(na), "pending")
