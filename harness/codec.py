"""Shared machinery for the entity-codec properties (C01–C07, C10)."""
from __future__ import annotations

import importlib
import io
import json
import os
import random

import common
import driver
import gen
import pyside
import values


class Classes:
    """the shipped classes in the translator's order (index = Lean `allClasses` index)"""

    def __init__(self):
        side = json.load(open(os.path.join(common.CACHE, "gen.json")))
        self.keys = side["classes"]
        self.codes = side["error_codes"]
        self.digest = side["digest"]
        self._cls = {}

    def __len__(self):
        return len(self.keys)

    def cls(self, i):
        if i not in self._cls:
            mod, qn = self.keys[i].split(":")
            self._cls[i] = getattr(importlib.import_module(mod), qn)
        return self._cls[i]

    def check_driver(self):
        r = driver.run_batch(["hello"])[0].split()
        if r[0] != "ok" or int(r[1]) != len(self.keys) or r[2] != self.digest:
            raise common.Infra(f"driver table mismatch: {r} vs {len(self.keys)} {self.digest}")


def choose_classes(n_total: int, rng: random.Random, count: int | None, seed: int):
    """seed-rotated subset; every class is hit once per ceil(n/count) seeds"""
    idx = list(range(n_total))
    if count is None or count >= n_total:
        return idx
    random.Random(12345).shuffle(idx)       # fixed permutation, rotated by the seed
    start = (seed * count) % n_total
    return sorted((idx + idx)[start : start + count])


def encode_real(cls, obj) -> str:
    from kio.serial import entity_writer

    buf = io.BytesIO()
    try:
        entity_writer(cls)(buf, obj)
    except Exception as e:  # noqa: BLE001
        return f"err {pyside.exc_class(e)} {type(e).__name__}"
    return f"ok {values.hex_tok(buf.getvalue())}"


def decode_real(cls, data: bytes) -> str:
    from kio.serial import entity_reader

    return pyside.run_reader(entity_reader(cls), data)


def gen_instances(classes: Classes, idxs, per_class: int, rng: random.Random, big_strings=True):
    """[(idx, abstract, obj)] — well-typed canonical instances"""
    from kio.static.primitive import TZAware
    import datetime

    probe = values.EPOCH + datetime.timedelta(milliseconds=1)
    g = gen.Gen(rng, classes.codes, big_strings=big_strings, tzaware_ms=isinstance(probe, TZAware))
    out = []
    for i in idxs:
        c = classes.cls(i)
        for k in range(per_class):
            a = g.instance(c, budget=rng.choice([0, 5, 20, 60]),
                           default_prob=[0.0, 0.3, 0.6, 1.0][k % 4] if k < 4 else None)
            out.append((i, a, values.build(a, c)))
    return out


def case_digest(i, a, extra="") -> str:
    return common.digest([i, values.render(a), extra])
