"""Shared machinery for the entity-codec properties (C01–C07, C10)."""
from __future__ import annotations

import importlib
import io
import json
import os
import random

import common
import driver
import gen
import pyside
import values


class Classes:
    """the shipped classes in the translator's order (index = Lean `allClasses` index)"""

    def __init__(self):
        side = json.load(open(os.path.join(common.CACHE, "gen.json")))
        self.keys = side["classes"]
        self.codes = side["error_codes"]
        self.digest = side["digest"]
        self._cls = {}

    def __len__(self):
        return len(self.keys)

    def cls(self, i):
        if i not in self._cls:
            mod, qn = self.keys[i].split(":")
            self._cls[i] = getattr(importlib.import_module(mod), qn)
        return self._cls[i]

    def check_driver(self):
        r = driver.run_batch(["hello"])[0].split()
        if r[0] != "ok" or int(r[1]) != len(self.keys) or r[2] != self.digest:
            raise common.Infra(f"driver table mismatch: {r} vs {len(self.keys)} {self.digest}")


def class_atoms(cls) -> set:
    """structural features of a class: one atom per (field shape, Kafka type / leaf, tagged,
    nullable, array-nullable, explicit default, flexible).  Classes are near-copies of one another
    across versions; a mechanism that only one field shape exercises lives in one or two classes."""
    import dataclasses
    import types
    import typing

    atoms = set()
    hints = typing.get_type_hints(cls)
    for f in dataclasses.fields(cls):
        tp = hints[f.name]
        opt = arr = arr_opt = False
        if typing.get_origin(tp) in (types.UnionType, typing.Union):
            opt = True
            tp = [a for a in typing.get_args(tp) if a is not type(None)][0]
        if typing.get_origin(tp) is tuple:
            arr, arr_opt, opt = True, opt, False
            tp = typing.get_args(tp)[0]
            if typing.get_origin(tp) in (types.UnionType, typing.Union):
                opt = True
                tp = [a for a in typing.get_args(tp) if a is not type(None)][0]
        leaf = "entity" if dataclasses.is_dataclass(tp) else f.metadata.get("kafka_type", getattr(tp, "__name__", str(tp)))
        dflt = "missing" if f.default is dataclasses.MISSING else ("none" if f.default is None else "value")
        atoms.add((arr, leaf, "tag" in f.metadata, opt, arr_opt, dflt, bool(cls.__flexible__)))
    atoms.add(("kind", cls.__type__.name, bool(cls.__flexible__), len(dataclasses.fields(cls)) == 0))
    last = None     # the field read last is special for everything about truncation and trailing bytes
    for f in dataclasses.fields(cls):
        if "tag" not in f.metadata:
            last = f
    if last is not None:
        tp = hints[last.name]
        opt = typing.get_origin(tp) in (types.UnionType, typing.Union)
        atoms.add(("last", last.metadata.get("kafka_type", "entity"), "tuple" in str(tp), opt, bool(cls.__flexible__)))
    tags = sorted(int(f.metadata["tag"]) for f in dataclasses.fields(cls) if "tag" in f.metadata)
    # how many tagged fields, whether their tags are declared in ascending order, whether they start at 0
    atoms.add(("tags", min(len(tags), 4),
               [int(f.metadata["tag"]) for f in dataclasses.fields(cls) if "tag" in f.metadata] == tags,
               (tags[0] == 0) if tags else None, (tags == list(range(len(tags)))) if tags else None))
    return atoms


_ATOM_INDEX = {}


def choose_classes(n_total: int, rng: random.Random, count: int | None, seed: int, classes: "Classes | None" = None,
                   per_atom: int = 3):
    """seed-rotated subset; every class is hit once per ceil(n/count) seeds.  With `classes`, the
    subset first takes, for every structural atom, `per_atom` classes having it (all of them when
    the atom is rare), so that rare field shapes are exercised on every run."""
    idx = list(range(n_total))
    if count is None or count >= n_total:
        return idx
    random.Random(12345).shuffle(idx)       # fixed permutation, rotated by the seed
    start = (seed * count) % n_total
    rot = (idx + idx)[start : start + count]
    if classes is None:
        return sorted(rot)
    if "by_atom" not in _ATOM_INDEX:
        by_atom = {}
        for i in range(n_total):
            for a in class_atoms(classes.cls(i)):
                by_atom.setdefault(a, []).append(i)
        _ATOM_INDEX["by_atom"] = by_atom
    must = set()
    for a, members in sorted(_ATOM_INDEX["by_atom"].items(), key=repr):
        k = (seed * per_atom) % len(members)
        must.update((members + members)[k : k + per_atom] if len(members) > per_atom else members)
    out = list(must)
    for i in rot:
        if len(out) >= max(count, len(must)):
            break
        if i not in must:
            out.append(i)
    return sorted(out)


def encode_real(cls, obj) -> str:
    from kio.serial import entity_writer

    buf = io.BytesIO()
    try:
        entity_writer(cls)(buf, obj)
    except Exception as e:  # noqa: BLE001
        return f"err {pyside.exc_class(e)} {type(e).__name__}"
    return f"ok {values.hex_tok(buf.getvalue())}"


def decode_real(cls, data: bytes) -> str:
    from kio.serial import entity_reader

    return pyside.run_reader(entity_reader(cls), data)


def gen_instances(classes: Classes, idxs, per_class: int, rng: random.Random, big_strings=True):
    """[(idx, abstract, obj)] — well-typed canonical instances"""
    from kio.static.primitive import TZAware
    import datetime

    probe = values.EPOCH + datetime.timedelta(milliseconds=1)
    g = gen.Gen(rng, classes.codes, big_strings=big_strings, tzaware_ms=isinstance(probe, TZAware))
    out = []
    for i in idxs:
        c = classes.cls(i)
        for k in range(per_class):
            a = g.instance(c, budget=rng.choice([0, 5, 20, 60]),
                           default_prob=[0.0, 0.3, 0.6, 1.0][k % 4] if k < 4 else None)
            out.append((i, a, values.build(a, c)))
    out.extend(_implicit_default_instances(classes, idxs, g))
    out.extend(_special_text_instances(classes, idxs, g))
    return out


SPECIAL_TEXTS = ["\ufeffclient-1", "\ufeff", "a\u2028b", "\u2029", "x\u0085y", "line\n", " padded ", "\x00", "\r\n", "tab\t",
                 "\ufeff\ufeff", "\U0001f680", "e\u0301"]


def _special_text_instances(classes, idxs, g):
    """one more instance per class with string fields: each top-level string field holds a text that
    codecs, `str` methods or line handling treat specially (leading BOM, line/paragraph separators, NEL,
    NUL, trailing newline, surrounding blanks, astral and combining characters)"""
    import dataclasses

    out = []
    for i in idxs:
        c = classes.cls(i)
        fs = dataclasses.fields(c)
        sj = [j for j, f in enumerate(fs) if f.metadata.get("kafka_type") == "string"]
        if not sj:
            continue
        a = g.instance(c, budget=5, default_prob=0.2)
        vals = list(a[1])
        changed = False
        bom = ["\ufeffclient-1", "\ufeff", "\ufeff\ufeff"]
        for n, j in enumerate(sj):
            if vals[j][0] in ("S", "N"):       # (a nullable string that happened to be None gets a text too)
                # the first string field of every class starts with a byte-order mark; the others rotate
                t = bom[i % 3] if n == 0 else SPECIAL_TEXTS[(i + n) % len(SPECIAL_TEXTS)]
                vals[j] = ("S", t.encode())
                changed = True
        if changed:
            a = ("E", vals)
            try:
                out.append((i, a, values.build(a, c)))
            except Exception:  # noqa: BLE001
                pass
    return out


def _implicit_default_instances(classes, idxs, g):
    """for every class with a tagged field that has no explicit default: one more instance whose
    implicitly-defaulted tagged fields hold exactly the default the *model* derives (zero value of
    the type; for a structure, the instance built from its members' defaults) — the value a writer
    must omit and a reader must supply.  Random generation practically never hits it."""
    import dataclasses

    want = [i for i in idxs if any("tag" in f.metadata for f in dataclasses.fields(classes.cls(i)))]
    if not want:
        return []
    if "fields" not in _ATOM_INDEX:     # one driver run for all classes, once per process
        allr = driver.run_batch([f"fields {i}" for i in range(len(classes))])
        _ATOM_INDEX["fields"] = dict(enumerate(allr))
    replies = [_ATOM_INDEX["fields"][i] for i in want]
    RANGES = {"int8": 7, "int16": 15, "int32": 31, "int64": 63}
    M61 = 2**61 - 1

    def twin(x, bits=63):
        """a value that is NOT equal to `x` but has the same Python hash (hash(-1) == hash(-2); integers
        hash modulo 2**61 - 1; tuples and dataclasses combine the hashes of their parts), or None"""
        if x[0] == "I":
            if x[1] == -1:
                return ("I", -2)
            if x[1] == -2:
                return ("I", -1)
            for y in (x[1] + M61, x[1] - M61):
                if -2**bits <= y < 2**bits:
                    return ("I", y)
            return None
        if x[0] in ("E", "A"):
            for k, y in enumerate(x[1]):
                t = twin(y, 31)     # members: stay inside every integer type that could be there
                if t is not None:
                    return (x[0], x[1][:k] + [t] + x[1][k + 1:])
        return None

    out = []
    for i, r in zip(want, replies):
        if not r.startswith("ok"):
            continue
        c = classes.cls(i)
        fs = dataclasses.fields(c)
        base = g.instance(c, budget=5, default_prob=0.5)
        dflts = {}
        for j, (f, d) in enumerate(zip(fs, r.split()[1:])):
            dv = d.split(":", 3)[3]
            if "tag" in f.metadata and not dv.startswith("ERR") and dv != "-":
                dflts[j] = values.parse_str(dv.replace(",", " "))
        # (1) implicitly defaulted tagged fields at the model's default
        if any("tag" in f.metadata and f.default is dataclasses.MISSING for f in fs) and \
                all(j in dflts for j, f in enumerate(fs) if "tag" in f.metadata and f.default is dataclasses.MISSING):
            vals = list(base[1])
            for j, f in enumerate(fs):
                if "tag" in f.metadata and f.default is dataclasses.MISSING:
                    vals[j] = dflts[j]
            out.append((i, ("E", vals), None))
        # (2) every tagged field at a hash-twin of its default: unequal to the default, so it is written
        vals, changed = list(base[1]), False
        for j, d in dflts.items():
            t = twin(d, RANGES.get(fs[j].metadata.get("kafka_type"), 31))
            if t is not None:
                vals[j], changed = t, True
        if changed:
            out.append((i, ("E", vals), None))
    res = []
    for i, a, _ in out:
        try:
            res.append((i, a, values.build(a, classes.cls(i))))
        except Exception:  # noqa: BLE001 - a twin outside the field's type: skip
            pass
    return res


def case_digest(i, a, extra="") -> str:
    return common.digest([i, values.render(a), extra])


# ---- process-wide state of kio.serial: reset to "just imported" --------------------------------
_SERIAL_SNAPSHOT = None


def _serial_modules():
    import sys
    return [m for n, m in sorted(sys.modules.items())
            if m is not None and (n == "kio._utils" or n.startswith("kio.serial"))]


def snapshot_serial_state():
    """remember the contents of every module-level mutable container of kio.serial / kio._utils as
    they are now (call before the first reader or writer is built)"""
    global _SERIAL_SNAPSHOT
    import kio.serial  # noqa: F401
    import kio.serial._implicit_defaults  # noqa: F401
    snap = []
    for m in _serial_modules():
        for name, obj in list(vars(m).items()):
            if name.startswith("__"):
                continue
            if isinstance(obj, dict):
                snap.append((obj, dict(obj)))
            elif isinstance(obj, list):
                snap.append((obj, list(obj)))
            elif isinstance(obj, set):
                snap.append((obj, set(obj)))
    _SERIAL_SNAPSHOT = snap


def reset_serial_state():
    """cold start: clear every functools cache in kio.serial / kio._utils and put every module-level
    mutable container back to its contents at `snapshot_serial_state()` — wherever the library keeps
    derived readers/writers, not only where it keeps them today"""
    if _SERIAL_SNAPSHOT is None:
        snapshot_serial_state()
    for m in _serial_modules():
        for name, obj in list(vars(m).items()):
            cc = getattr(obj, "cache_clear", None)
            if callable(cc):
                try:
                    cc()
                except Exception:  # noqa: BLE001
                    pass
    for obj, orig in _SERIAL_SNAPSHOT:
        if isinstance(obj, dict):
            obj.clear(); obj.update(orig)
        elif isinstance(obj, list):
            obj[:] = orig
        else:
            obj.clear(); obj.update(orig)


# ---- the process environment must not matter ------------------------------------------------------
ENV_CHILD = r"""
import sys, json, io, importlib
harness, src = sys.argv[1], sys.argv[2]
sys.path.insert(0, src); sys.path.insert(0, harness)
import values
from kio.serial import entity_reader, entity_writer
out = []
for key, rendered, extra_hex in json.load(sys.stdin):
    mod, qn = key.split(":")
    c = getattr(importlib.import_module(mod), qn)
    rec = []
    try:
        obj = values.build(values.parse_str(rendered), c)
        b = io.BytesIO(); entity_writer(c)(b, obj); data = b.getvalue()
        rec.append(data.hex())
        back = entity_reader(c)(io.BytesIO(data + b"\x07"))
        rec.append(values.render(values.abstract(back)))
    except Exception as e:
        rec.append("err " + type(e).__name__)
    for h in extra_hex:                       # malformed / truncated inputs: outcome class only
        try:
            v = entity_reader(c)(io.BytesIO(bytes.fromhex(h)))
            rec.append("ok " + values.render(values.abstract(v)))
        except Exception as e:
            rec.append("err " + type(e).__name__)
    out.append(rec)
print(json.dumps(out))
"""

ENV_VARIANTS = (("TZ=America/New_York", {"TZ": "America/New_York"}, ()),
                ("python -O (assertions stripped)", {"TZ": "UTC"}, ("-O",)),
                ("PYTHONHASHSEED=7, TZ=IST-5:30", {"TZ": "IST-5:30", "PYTHONHASHSEED": "7"}, ()))


def env_variants_check(classes, sample):
    """encode, decode (and decode some damaged variants of) the sampled instances in child processes that
    differ from the reference child only in their environment (local time zone, -O, hash seed); returns
    failure records.  `sample` = [(class index, abstract value)]"""
    import subprocess

    cases = []
    for i, a in sample:
        c = classes.cls(i)
        try:
            buf = io.BytesIO()
            from kio.serial import entity_writer
            entity_writer(c)(buf, values.build(a, c))
            d = buf.getvalue()
            extra = [d[:-1].hex(), d[: len(d) // 2].hex(), (d[:-1] + b"\xff").hex()] if d else []
        except Exception:  # noqa: BLE001
            extra = []
        cases.append([classes.keys[i], values.render(a), extra])
    payload = json.dumps(cases).encode()

    def run_child(env_, flags):
        r = subprocess.run([common.PY, *flags, "-c", ENV_CHILD, os.path.join(common.VERIF, "harness"),
                            os.path.join(common.REPO, "src")], input=payload, stdout=subprocess.PIPE,
                           stderr=subprocess.PIPE, env={**os.environ, **env_}, timeout=900)
        out = r.stdout.decode().strip()
        return json.loads(out) if out.startswith("[") else ("ERR " + r.stderr.decode()[-400:])

    base = run_child({"TZ": "UTC"}, ())
    fails = []
    if isinstance(base, str):
        return [{"what": "environment child failed: " + base[:300], "class": "-"}]
    for label, env_, flags in ENV_VARIANTS:
        o = run_child(env_, flags)
        if isinstance(o, str):
            fails.append({"what": f"encode/decode fails under {label}: {o[:300]}", "class": "-"})
            continue
        for (key, rendered, _), b0, b1 in zip(cases, base, o):
            if b0 != b1:
                fails.append({"what": f"encoding / decoding gives another result under {label} than under TZ=UTC",
                              "class": key, "value": rendered[:1500], "reference": str(b0)[:400], "got": str(b1)[:400]})
                break
    return fails
