"""C11 — primitive readers and writers implement the Kafka primitive encodings."""
from __future__ import annotations

import io
import random
import struct

import common
import driver
import pyside
import values

LEAN_MODULE = "Kio.Props.C11"
THEOREMS = [
    "Kio.C11.natBE_length",
    "Kio.C11.beNat_natBE",
    "Kio.C11.natBE_beNat",
    "Kio.C11.int_roundtrip",
    "Kio.C11.int_bytes_spec",
    "Kio.C11.int_out_of_domain",
    "Kio.C11.varint_roundtrip",
    "Kio.C11.varint_length_le",
    "Kio.C11.varint_minimal",
    "Kio.C11.varint_prefix_underflow",
    "Kio.C11.varint_too_long",
    "Kio.C11.encVarint_eq_spec",
    "Kio.C11.zigzag_dec_enc",
    "Kio.C11.zigzag_enc_dec",
    "Kio.C11.zigzag_range32",
    "Kio.C11.zigzag_range64",
    "Kio.C11.signed_varint_roundtrip",
    "Kio.C11.signed_varlong_roundtrip",
    "Kio.C11.boolean_roundtrip",
    "Kio.C11.float64_roundtrip",
    "Kio.C11.uuid_roundtrip",
    "Kio.C11.error_code_roundtrip",
    "Kio.C11.compact_string_roundtrip",
    "Kio.C11.compact_bytes_roundtrip",
    "Kio.C11.legacy_string_roundtrip",
    "Kio.C11.legacy_bytes_roundtrip",
    "Kio.C11.legacy_string_out_of_domain",
    "Kio.C11.legacy_bytes_out_of_domain",
    "Kio.C11.timedelta_i32_roundtrip",
    "Kio.C11.timedelta_i64_roundtrip",
    "Kio.C11.datetime_roundtrip",
    "Kio.C11.array_roundtrip",
]

POW2 = [2 ** k for k in range(0, 71)]


def around_pows(lo, hi):
    s = set()
    for p in POW2:
        for d in (-3, -2, -1, 0, 1, 2, 3):
            for sign in (1, -1):
                v = sign * p + d
                if lo <= v <= hi:
                    s.add(v)
    s.update({lo, hi, 0})
    return sorted(s)


FIXED_WIDTH_READERS = frozenset({
    "read_int8", "read_int16", "read_int32", "read_int64", "read_uint8", "read_uint16", "read_uint32",
    "read_uint64", "read_error_code", "read_timedelta_i32", "read_timedelta_i64", "read_datetime_i64",
    "read_nullable_datetime_i64"})


def readers_table():
    from kio.serial import readers as r

    simple = [
        "read_boolean", "read_int8", "read_int16", "read_int32", "read_int64", "read_uint8",
        "read_uint16", "read_uint32", "read_uint64", "read_unsigned_varint", "read_signed_varint",
        "read_unsigned_varlong", "read_signed_varlong", "read_float64",
        "read_compact_string_as_bytes", "read_compact_string_as_bytes_nullable",
        "read_compact_string", "read_compact_string_nullable", "read_legacy_bytes",
        "read_nullable_legacy_bytes", "read_legacy_string", "read_nullable_legacy_string",
        "read_legacy_array_length", "read_compact_array_length", "read_uuid", "read_error_code",
        "read_timedelta_i32", "read_timedelta_i64", "read_datetime_i64",
        "read_nullable_datetime_i64",
    ]
    t = {n: getattr(r, n) for n in simple}
    t["compact_array_reader:int32"] = r.compact_array_reader(r.read_int32)
    t["legacy_array_reader:int32"] = r.legacy_array_reader(r.read_int32)
    t["compact_array_reader:compact_string"] = r.compact_array_reader(r.read_compact_string)
    t["legacy_array_reader:legacy_string"] = r.legacy_array_reader(r.read_legacy_string)
    return t


def writers_table():
    from kio.serial import writers as w

    simple = [
        "write_boolean", "write_int8", "write_int16", "write_int32", "write_int64",
        "write_uint8", "write_uint16", "write_uint32", "write_uint64", "write_unsigned_varint",
        "write_unsigned_varlong", "write_signed_varint", "write_signed_varlong", "write_float64",
        "write_nullable_compact_string", "write_compact_string", "write_nullable_legacy_string",
        "write_nullable_legacy_bytes", "write_legacy_string", "write_legacy_bytes",
        "write_legacy_array_length", "write_compact_array_length", "write_uuid",
        "write_error_code", "write_timedelta_i32", "write_timedelta_i64", "write_datetime_i64",
        "write_nullable_datetime_i64",
    ]
    t = {n: getattr(w, n) for n in simple}
    t["write_empty_tagged_fields"] = lambda buf, _v: w.write_empty_tagged_fields(buf)
    t["compact_array_writer:int32"] = w.compact_array_writer(w.write_int32)
    t["legacy_array_writer:int32"] = w.legacy_array_writer(w.write_int32)
    t["compact_array_writer:compact_string"] = w.compact_array_writer(w.write_compact_string)
    t["legacy_array_writer:legacy_string"] = w.legacy_array_writer(w.write_legacy_string)
    return t


PAIRS = {  # writer -> reader (reader∘writer = id on the domain)
    "write_boolean": "read_boolean", "write_int8": "read_int8", "write_int16": "read_int16",
    "write_int32": "read_int32", "write_int64": "read_int64", "write_uint8": "read_uint8",
    "write_uint16": "read_uint16", "write_uint32": "read_uint32", "write_uint64": "read_uint64",
    "write_unsigned_varint": "read_unsigned_varint", "write_unsigned_varlong": "read_unsigned_varlong",
    "write_signed_varint": "read_signed_varint", "write_signed_varlong": "read_signed_varlong",
    "write_float64": "read_float64", "write_nullable_compact_string": "read_compact_string_nullable",
    "write_compact_string": "read_compact_string",
    "write_nullable_legacy_string": "read_nullable_legacy_string",
    "write_nullable_legacy_bytes": "read_nullable_legacy_bytes",
    "write_legacy_string": "read_legacy_string", "write_legacy_bytes": "read_legacy_bytes",
    "write_legacy_array_length": "read_legacy_array_length",
    "write_compact_array_length": "read_compact_array_length", "write_uuid": "read_uuid",
    "write_error_code": "read_error_code", "write_timedelta_i32": "read_timedelta_i32",
    "write_timedelta_i64": "read_timedelta_i64", "write_datetime_i64": "read_datetime_i64",
    "write_nullable_datetime_i64": "read_nullable_datetime_i64",
    "compact_array_writer:int32": "compact_array_reader:int32",
    "legacy_array_writer:int32": "legacy_array_reader:int32",
    "compact_array_writer:compact_string": "compact_array_reader:compact_string",
    "legacy_array_writer:legacy_string": "legacy_array_reader:legacy_string",
}

STR_LENS = [0, 1, 2, 126, 127, 128, 129, 255, 256, 16383, 16384, 32767]
SAMPLES_UTF8 = ["", "a", "é", "€", "𝄞", "kafka-ünï", "\u0000", "퟿", "\U0010ffff"]
BAD_UTF8 = [b"\x80", b"\xc0\x80", b"\xc1\xbf", b"\xe0\x80\x80", b"\xed\xa0\x80", b"\xed\xbf\xbf",
            b"\xf0\x8f\xbf\xbf", b"\xf4\x90\x80\x80", b"\xf5\x80\x80\x80", b"\xc2", b"\xe2\x82",
            b"\xf0\x9f\x98", b"a\xffb", b"\xfe", b"\xe0\x9f\xbf", b"\xf8\x88\x80\x80\x80"]


def writer_inputs(rng: random.Random, tier: str, codes):
    """(writer name, abstract value) pairs"""
    out = []
    thorough = tier == "thorough"
    stride = 1 if thorough else 16

    def ints(fn, lo, hi, exhaustive_bits=None):
        vals = set(around_pows(lo - 4, hi + 4))
        vals.update(rng.randint(lo, hi) for _ in range(200))
        if exhaustive_bits:
            off = rng.randrange(stride)
            vals.update(range(lo - 2 + off, hi + 3, stride))
        for v in sorted(vals):
            out.append((fn, ("I", v)))

    ints("write_int8", -128, 127, 8)
    ints("write_uint8", 0, 255, 8)
    ints("write_int16", -2**15, 2**15 - 1, 16)
    ints("write_uint16", 0, 2**16 - 1, 16)
    ints("write_int32", -2**31, 2**31 - 1)
    ints("write_uint32", 0, 2**32 - 1)
    ints("write_int64", -2**63, 2**63 - 1)
    ints("write_uint64", 0, 2**64 - 1)
    ints("write_legacy_array_length", -2**31, 2**31 - 1)
    # varints: non-negative only for unsigned (a negative value never terminates in Python)
    for fn, hi in (("write_unsigned_varint", 2**35 - 1), ("write_unsigned_varlong", 2**70 - 1)):
        vals = set(v for v in around_pows(0, hi + 8))
        vals.update(rng.randint(0, hi) for _ in range(300))
        off = rng.randrange(stride)
        vals.update(range(off, 2**21, stride * 8 if not thorough else 1))
        for v in sorted(vals):
            out.append((fn, ("I", v)))
    for fn, bits in (("write_signed_varint", 32), ("write_signed_varlong", 64)):
        lo, hi = -2**(bits - 1), 2**(bits - 1) - 1
        vals = set(around_pows(lo, hi))
        vals.update(rng.randint(lo, hi) for _ in range(300))
        off = rng.randrange(stride)
        vals.update(range(-2**20 + off, 2**20, stride * 8 if not thorough else 1))
        for v in sorted(vals):
            out.append((fn, ("I", v)))
    for v in sorted(set(around_pows(-1, 2**35 - 2)) | {rng.randint(0, 2**34) for _ in range(50)}
                    | {-2, -3, -127, -128, -129, -2**31, -2**31 - 1, -2**35, -2**63, 2**35 - 1, 2**35, 2**63}):
        out.append(("write_compact_array_length", ("I", v)))
    for b in (True, False):
        out.append(("write_boolean", ("B", b)))
    # floats: all classes
    fbits = [0, 1 << 63, 0x7FF0000000000000, 0xFFF0000000000000, 0x7FF8000000000000,
             0x7FF0000000000001, 0xFFF8000000000123, 1, 0x000FFFFFFFFFFFFF, 0x0010000000000000,
             0x7FEFFFFFFFFFFFFF, 0x3FF0000000000000, 0xBFF0000000000000, 0x4340000000000000]
    fbits += [rng.getrandbits(64) for _ in range(300)]
    for b in fbits:
        out.append(("write_float64", ("F", b)))
    # strings / bytes
    strs = [s.encode() for s in SAMPLES_UTF8]
    for n in STR_LENS:
        strs.append(bytes(rng.choice(b"abcxyz019-_.") for _ in range(n)))
        if n >= 2:
            strs.append(("é" * (n // 2) + ("a" if n % 2 else "")).encode())
    for txt in ("é" * 16383 + "a", "é" * 16384, "é" * 20000, "€" * 10922 + "ab", "€" * 10923, "€" * 11000, "𝄞" * 8192, "𝄞" * 16000):
        strs.append(txt.encode())
    strs.append(b"x" * 32768)
    strs.append(b"y" * 40000)
    for s in strs:
        for fn in ("write_nullable_compact_string", "write_compact_string",
                   "write_nullable_legacy_string", "write_legacy_string"):
            out.append((fn, ("S", s)))
        for fn in ("write_nullable_compact_string", "write_compact_string",
                   "write_nullable_legacy_bytes", "write_legacy_bytes"):
            out.append((fn, ("Y", s)))
    for n in (0, 1, 100, 70000):
        b = bytes(rng.getrandbits(8) for _ in range(n))
        for fn in ("write_nullable_compact_string", "write_compact_string",
                   "write_nullable_legacy_bytes", "write_legacy_bytes"):
            out.append((fn, ("Y", b)))
    for fn in ("write_nullable_compact_string", "write_compact_string",
               "write_nullable_legacy_string", "write_legacy_string",
               "write_nullable_legacy_bytes", "write_legacy_bytes", "write_uuid",
               "write_nullable_datetime_i64"):
        out.append((fn, ("N",)))
    for _ in range(40):
        out.append(("write_uuid", ("U", bytes(rng.getrandbits(8) for _ in range(16)))))
    out.append(("write_uuid", ("U", bytes(16))))
    out.append(("write_uuid", ("U", bytes(15) + b"\x01")))
    for c in codes:
        out.append(("write_error_code", ("I", c)))
    # durations: whole ms around limits and sub-ms offsets
    for fn, lo, hi in (("write_timedelta_i32", -2**31, 2**31 - 1),
                       ("write_timedelta_i64", -86399999913600000, 86399999913599999)):
        ms = set(v for v in around_pows(lo, hi))
        ms.update(rng.randint(lo, hi) for _ in range(300))
        ms.update(v for v in (2**53 - 1, 2**53, 2**53 + 1, 9007199254740993, 36028797018976313) if lo <= v <= hi)
        if fn == "write_timedelta_i64":
            # the reader returns every duration up to timedelta.max: the writer must take them back, also the
            # last day, which lies outside the i64Timedelta type's own bounds
            ms.update((86399999913600000, 86399999913600001, 86399999950000000, 86399999999999998, 86399999999999999))
        for m in sorted(ms):
            out.append((fn, ("T", m * 1000)))
        for m in list(sorted(ms))[:: max(1, len(ms) // 60)]:
            for sub in (1, 499, 500, 501, 999):
                us = m * 1000 + sub
                if lo * 1000 <= us <= hi * 1000:
                    out.append((fn, ("T", us)))
    # timestamps: whole seconds, whole ms, sub-ms
    hi_ms = 253402300799999
    ms = set(v for v in around_pows(0, hi_ms)) | {rng.randint(0, hi_ms) for _ in range(400)}
    ms |= {1001, 1234567890123, 139751028864291}
    for m in sorted(ms):
        for fn in ("write_datetime_i64", "write_nullable_datetime_i64"):
            out.append((fn, ("D", m * 1000)))
            out.append((fn, ("D", (m // 1000) * 1000000)))
    for m in list(sorted(ms))[::10]:
        for sub in (1, 499, 500, 501, 999):
            out.append(("write_datetime_i64", ("D", m * 1000 + sub)))
    # arrays
    for fn, item in (("compact_array_writer:int32", "I"), ("legacy_array_writer:int32", "I")):
        out.append((fn, ("N",)))
        for n in (0, 1, 2, 3, 126, 127, 128, 300, 16384, 32767, 32768, 40000):
            out.append((fn, ("A", [("I", rng.randint(-2**31, 2**31 - 1)) for _ in range(n)])))
    for fn in ("compact_array_writer:compact_string", "legacy_array_writer:legacy_string"):
        out.append((fn, ("N",)))
        for n in (0, 1, 2, 5, 127, 128):
            out.append((fn, ("A", [("S", rng.choice(SAMPLES_UTF8).encode()) for _ in range(n)])))
    out.append(("write_empty_tagged_fields", ("N",)))
    return out


def to_py(fn: str, a):
    """abstract -> python argument for writer `fn`"""
    import datetime
    import uuid

    from kio.schema.errors import ErrorCode

    k = a[0]
    if k == "N":
        return None
    if k == "I":
        return ErrorCode(a[1]) if fn == "write_error_code" else a[1]
    if k == "B":
        return a[1]
    if k == "F":
        return struct.unpack(">d", struct.pack(">Q", a[1]))[0]
    if k == "S":
        return a[1].decode()
    if k == "Y":
        return a[1]
    if k == "U":
        return uuid.UUID(bytes=a[1])
    if k == "T":
        return datetime.timedelta(microseconds=a[1])
    if k == "D":
        return values.EPOCH + datetime.timedelta(microseconds=a[1])
    if k == "A":
        return tuple(to_py(fn, x) for x in a[1])
    raise ValueError(a)


def reader_inputs(rng: random.Random, tier: str, encoded: dict):
    """(reader name, bytes) pairs: valid encodings (+suffix, every strict prefix for short
    ones), mutations, random bytes, and exhaustive short inputs for the varint readers."""
    out = []
    thorough = tier == "thorough"
    var_readers = ["read_unsigned_varint", "read_signed_varint", "read_unsigned_varlong",
                   "read_signed_varlong", "read_compact_array_length"]
    # exhaustive short inputs
    for fn in var_readers:
        for b0 in range(256):
            out.append((fn, bytes([b0])))
        step = 1 if thorough else 7
        off = rng.randrange(step)
        for x in range(off, 65536, step):
            out.append((fn, x.to_bytes(2, "big")))
        # (thorough: all 3-byte strings are streamed separately in `run`, see `stream_3byte`)
        for _ in range(4000):
            out.append((fn, rng.getrandbits(24).to_bytes(3, "big")))
        for _ in range(400):
            n = rng.randint(4, 12)
            b = bytearray(rng.getrandbits(8) | 0x80 for _ in range(n))
            b[rng.randrange(n)] &= 0x7F
            out.append((fn, bytes(b)))
        for n in range(1, 12):
            out.append((fn, b"\xff" * n))
            out.append((fn, b"\x80" * n + b"\x00"))
            out.append((fn, b"\xff" * n + b"\x7f"))
    for fn, w in (("read_int8", 1), ("read_uint8", 1), ("read_boolean", 1)):
        for x in range(256):
            out.append((fn, bytes([x])))
            out.append((fn, bytes([x, 0xAA])))
    for fn in ("read_int16", "read_uint16", "read_error_code"):
        step = 1 if thorough else 5
        for x in range(rng.randrange(step), 65536, step):
            out.append((fn, x.to_bytes(2, "big")))
    # valid encodings from the real writers: + suffix, truncations, single-byte mutations
    for rfn, blobs in encoded.items():
        for b in blobs:
            out.append((rfn, b))
            if len(b) > 20000:          # very long encodings: read back once, no derived variants
                continue
            out.append((rfn, b + b"\x00\xff"))
            if len(b) <= 24:
                for k in range(len(b)):
                    out.append((rfn, b[:k]))
            else:
                for k in {0, 1, 2, 3, 4, 5, len(b) // 2, len(b) - 1}:
                    out.append((rfn, b[:k]))
            if b and len(b) < 300:
                for _ in range(3):
                    m = bytearray(b)
                    i = rng.randrange(min(len(m), 6))
                    m[i] = rng.getrandbits(8)
                    out.append((rfn, bytes(m)))
    # strings with invalid UTF-8 and odd lengths
    for bad in BAD_UTF8:
        out.append(("read_compact_string", bytes([len(bad) + 1]) + bad))
        out.append(("read_compact_string_nullable", bytes([len(bad) + 1]) + bad))
        out.append(("read_legacy_string", struct.pack(">h", len(bad)) + bad))
        out.append(("read_nullable_legacy_string", struct.pack(">h", len(bad)) + bad))
        out.append(("compact_array_reader:compact_string", b"\x02" + bytes([len(bad) + 1]) + bad))
    for n in (-2, -3, -32768, -1):
        out.append(("read_legacy_string", struct.pack(">h", n) + b"abc"))
        out.append(("read_nullable_legacy_string", struct.pack(">h", n) + b"abc"))
    for n in (-2, -3, -2**31, -1, 5, 2**31 - 1):
        out.append(("read_legacy_bytes", struct.pack(">i", n) + b"abc"))
        out.append(("read_nullable_legacy_bytes", struct.pack(">i", n) + b"abc"))
        out.append(("legacy_array_reader:int32", struct.pack(">i", n) + b"\x00" * 12))
        out.append(("legacy_array_reader:legacy_string", struct.pack(">i", n) + b"\x00\x01a" * 3))
    # 64-bit integers as durations / timestamps: boundaries of the Python types
    specials = [-2**63, 2**63 - 1, -1, 0, 1, 999, 1000, 1001, 253402300799999, 253402300800000,
                -62135596800000, -62135596800001, 86399999913599999, 86399999913600000,
                86399999999999999, 86400000000000000, -86399999913600000, -86399999913600001,
                2**53 - 1, 2**53, 2**53 + 1, 1234567890123]
    specials += [rng.randint(-2**63, 2**63 - 1) for _ in range(200)]
    specials += [rng.randint(0, 253402300799999) for _ in range(300)]
    for v in specials:
        b = struct.pack(">q", v)
        for fn in ("read_timedelta_i64", "read_datetime_i64", "read_nullable_datetime_i64", "read_int64"):
            out.append((fn, b))
    # legacy length prefixes with the sign bit set (other than -1), followed by as many bytes as the
    # prefix would mean if it were read unsigned
    for fn in ("read_legacy_string", "read_nullable_legacy_string"):
        for pref in (0x8000, 0x8001, 0xFFFE, 0xC000):
            out.append((fn, pref.to_bytes(2, "big") + b"a" * pref))
            out.append((fn, pref.to_bytes(2, "big") + b"a" * 10))
    for fn in ("read_legacy_bytes", "read_nullable_legacy_bytes"):
        for pref in (0x80000000, 0xFFFFFFFE, 0xFFFF0000):
            out.append((fn, pref.to_bytes(4, "big") + b"a" * 70000))
    # random bytes for everything
    names = list(readers_table())
    for _ in range(3000 if not thorough else 30000):
        fn = rng.choice(names)
        n = rng.choice([0, 1, 2, 3, 4, 5, 8, 9, 16, 17, 20, 40])
        out.append((fn, bytes(rng.getrandbits(8) for _ in range(n))))
    return out


def run(ctx):
    from kio.schema.errors import ErrorCode

    rng = random.Random(ctx.seed)
    codes = sorted(int(m.value) for m in ErrorCode)
    rt, wt = readers_table(), writers_table()
    # ---- writers: real code vs model, then reader∘writer on the real code
    winputs = writer_inputs(rng, ctx.tier, codes)
    py_w, lines, encoded = [], [], {}
    direct_fail = []
    for fn, a in winputs:
        try:
            arg = to_py(fn, a)
        except Exception:  # e.g. non-member error code
            continue
        res = pyside.run_writer(wt[fn], arg)
        py_w.append((fn, a, res))
        lines.append(f"wprim {fn} {values.render(a)}")
        if res.startswith("ok"):
            data = values.unhex_tok(res.split()[1])
            rfn = PAIRS.get(fn)
            if rfn:
                encoded.setdefault(rfn, []).append(data)
    lean_w = driver.run_parallel(lines)
    disagreements = []
    for (fn, a, res), lr in zip(py_w, lean_w):
        if not pyside.same_enc_outcome(res, lr):
            disagreements.append({"fn": fn, "value": values.render(a), "python": res, "model": lr})
    # direct property evaluation: reader after writer is the identity on the domain
    nrt = 0
    for fn, a, res in py_w:
        rfn = PAIRS.get(fn)
        if not rfn or not res.startswith("ok"):
            continue
        if not in_domain(fn, a):
            continue
        data = values.unhex_tok(res.split()[1])
        back = pyside.run_reader(rt[rfn], data + b"\x5a")
        expect = expected_back(fn, a)
        nrt += 1
        if fn.startswith("write_timedelta") and a[1] % 1000:
            # sub-millisecond input: any nearest whole millisecond is a correct rounding
            ok = back.startswith(f"ok {len(data)} T") and abs(int(back.split()[2][1:]) - a[1]) <= 500
        else:
            ok = back == f"ok {len(data)} {values.render(expect)}"
        if not ok:
            direct_fail.append({"fn": fn, "value": values.render(a), "bytes": data.hex(),
                                "read_back": back, "expected": values.render(expect)})
    # out-of-domain: fixed-width and length-limited writers must raise
    for fn, a, res in py_w:
        if must_raise(fn, a) and res.startswith("ok"):
            direct_fail.append({"fn": fn, "value": values.render(a), "python": res,
                                "expected": "an exception (value outside the domain)"})
    # ---- readers: real code vs model
    dedup = {}
    for rfn in encoded:
        encoded[rfn] = list(dict.fromkeys(encoded[rfn]))[:4000]
    rinputs = reader_inputs(rng, ctx.tier, encoded)
    seen = set()
    lines, py_r = [], []
    nfixed = 0
    for fn, b in rinputs:
        if (fn, b) in seen:
            continue
        seen.add((fn, b))
        py_r.append((fn, b, pyside.run_reader(rt[fn], b)))
        lines.append(f"prim {fn} {values.hex_tok(b)}")
        # fixed-width encodings are bijections between the domain and the byte strings the reader
        # accepts: whatever such a reader accepts, the matching writer must turn back into the bytes
        # consumed (an accepted encoding of no member of the domain shows here, model or no model)
        if fn in FIXED_WIDTH_READERS and py_r[-1][2].startswith("ok"):
            nfixed += 1
            try:
                buf = io.BytesIO(b); v = rt[fn](buf); n = buf.tell()
                out = io.BytesIO(); wt[fn.replace("read_", "write_", 1)](out, v)
                if out.getvalue() != b[:n]:
                    direct_fail.append({"fn": fn, "bytes": b[:n].hex(), "value": repr(v)[:200],
                                        "python": "written back as " + out.getvalue().hex(),
                                        "expected": "the bytes the reader consumed (fixed-width encodings are one-to-one)"})
            except Exception as e:  # noqa: BLE001
                direct_fail.append({"fn": fn, "bytes": b.hex(), "python": f"{type(e).__name__}: {e}"[:200],
                                    "expected": "a value the matching writer accepts"})
    lean_r = driver.run_parallel(lines, jobs=14)
    for (fn, b, res), lr in zip(py_r, lean_r):
        if not pyside.same_outcome(res, lr):
            disagreements.append({"fn": fn, "bytes": b.hex(), "python": res, "model": lr})
    # thorough: all 2^24 three-byte strings for the two base varint readers (the others are
    # compositions), streamed in chunks so that memory stays flat
    stream_n, stream_kinds = 0, {}
    if ctx.tier == "thorough":
        for fn in ("read_unsigned_varint", "read_unsigned_varlong"):
            for hi in range(0, 256, 8):
                chunk = [x.to_bytes(3, "big") for x in range(hi << 16, (hi + 8) << 16)]
                pr = [pyside.run_reader(rt[fn], b) for b in chunk]
                lr = driver.run_parallel([f"prim {fn} {values.hex_tok(b)}" for b in chunk], jobs=14)
                for b, res, l in zip(chunk, pr, lr):
                    if not pyside.same_outcome(res, l):
                        disagreements.append({"fn": fn, "bytes": b.hex(), "python": res, "model": l})
                    k = res.split()[0] + ("" if res.startswith("ok") else ":" + res.split()[1])
                    stream_kinds[k] = stream_kinds.get(k, 0) + 1
                stream_n += len(chunk)
    # the process environment must not matter: the time-related writers and readers (and a sample of the
    # others) evaluated again in child processes under other local time zones, with -O, another hash seed
    import json as _json
    import os
    import subprocess
    wsample = [(fn, values.render(a)) for fn, a, res in py_w
               if ("datetime" in fn or "timedelta" in fn)][::7][:400] + [(fn, values.render(a)) for fn, a, res in py_w[::997]]
    rsample = [(fn, b.hex()) for fn, b, res in py_r if ("datetime" in fn or "timedelta" in fn) and len(b) <= 16][::5][:400]
    child = ("import sys, json\n"
             "sys.path.insert(0, %r); sys.path.insert(0, %r); sys.path.insert(0, %r)\n"
             "import values, pyside\n"
             "import c11\n"
             "rt, wt = c11.readers_table(), c11.writers_table()\n"
             "ws, rs = json.load(sys.stdin)\n"
             "out = []\n"
             "for fn, r in ws:\n"
             "    try:\n"
             "        out.append(pyside.run_writer(wt[fn], c11.to_py(fn, values.parse_str(r))))\n"
             "    except Exception as e:\n"
             "        out.append('skip ' + type(e).__name__)\n"
             "for fn, h in rs:\n"
             "    out.append(pyside.run_reader(rt[fn], bytes.fromhex(h)))\n"
             "print(json.dumps(out))\n") % (os.path.join(common.REPO, "src"), os.path.join(common.VERIF, "harness"),
                                            os.path.join(common.VERIF, "harness", "props"))
    def run_child(env_, flags=()):
        r = subprocess.run([common.PY, *flags, "-c", child], input=_json.dumps([wsample, rsample]).encode(),
                           stdout=subprocess.PIPE, stderr=subprocess.PIPE, env={**os.environ, **env_}, timeout=600)
        return r.stdout.decode().strip() or ("ERR " + r.stderr.decode()[-300:])
    base_out = run_child({"TZ": "UTC"})
    if base_out.startswith("ERR"):
        ctx.notes.append("environment child failed: " + base_out[:200])
    else:
        for label, env_, flags in (("TZ=America/New_York", {"TZ": "America/New_York"}, ()), ("TZ=IST-5:30", {"TZ": "IST-5:30"}, ()),
                                   ("python -O", {"TZ": "UTC"}, ("-O",)), ("PYTHONHASHSEED=7", {"TZ": "UTC", "PYTHONHASHSEED": "7"}, ())):
            o = run_child(env_, flags)
            if o != base_out:
                try:
                    a0, a1 = _json.loads(base_out), _json.loads(o)
                    k = next(n for n in range(len(a0)) if a0[n] != a1[n])
                    what = (wsample + rsample)[k]
                    direct_fail.append({"fn": what[0], "value": str(what[1])[:200], "python": a1[k][:200], "expected": a0[k][:200],
                                        "environment": label})
                except Exception:  # noqa: BLE001
                    direct_fail.append({"fn": "environment", "value": label, "python": o[:200], "expected": base_out[:200]})
    # tz_aware_from_i64 and write_tagged_field (no reader/writer shape)
    from kio.serial.readers import tz_aware_from_i64
    from kio.serial import writers as W

    tlines, tpy = [], []
    for v in [rng.randint(0, 253402300799999) for _ in range(300)] + [0, 1, 999, 1000, -1, -1000,
                                                                      253402300799999, 253402300800000, 2**63 - 1, -2**63]:
        try:
            r = f"ok 0 {values.render(values.abstract(tz_aware_from_i64(v)))}"
        except Exception as e:  # noqa: BLE001
            r = f"err {pyside.exc_class(e)} {type(e).__name__}"
        tpy.append((v, r))
        tlines.append(f"tzaware {v}")
    for tag in (0, 1, 127, 128, 2**35 - 1):
        for val in (0, -1, 2**31 - 1):
            buf = io.BytesIO()
            W.write_tagged_field(buf, tag, W.write_int32, val)
            tpy.append(((tag, val), f"ok {values.hex_tok(buf.getvalue())}"))
            tlines.append(f"wtagged {tag} write_int32 I{val}")
    tl = driver.run_batch(tlines)
    for (v, r), lr in zip(tpy, tl):
        if not pyside.same_outcome(r, lr):
            disagreements.append({"fn": "tz_aware_from_i64/write_tagged_field", "input": v, "python": r, "model": lr})

    kinds = {}
    for fn, b, res in py_r:
        k = res.split()[0] + ("" if res.startswith("ok") else ":" + res.split()[1])
        kinds[k] = kinds.get(k, 0) + 1
    nontrivial = sum(1 for fn, b, _ in py_r if len(b) >= 1 and any(b)) + \
        sum(1 for fn, a, _ in py_w if a not in (("I", 0), ("N",)))
    ctx.coverage.update({
        "evaluations": len(py_r) + len(py_w) + nrt + len(tpy) + stream_n,
        "exhaustive_3byte_varint_inputs": stream_n, "exhaustive_3byte_outcomes": stream_kinds,
        "distinct_nontrivial": nontrivial,
        "rule": "case = (public function, input); distinct by construction (set); non-trivial = "
                "reader input has a non-zero byte / writer value is not 0 or None",
        "functions_covered": sorted(set(fn for fn, _, _ in py_r) | set(fn for fn, _, _ in py_w)),
        "reader_outcomes": kinds,
        "writer_cases": len(py_w), "reader_cases": len(py_r), "roundtrips_on_code": nrt,
        "samples": [{"fn": fn, "bytes": b.hex(), "python": res} for fn, b, res in py_r[::max(1, len(py_r)//8)][:8]]
                   + [{"fn": fn, "value": values.render(a)[:80], "python": res[:80]} for fn, a, res in py_w[::max(1, len(py_w)//6)][:6]],
        "disagreements": len(disagreements), "property_failures_on_code": len(direct_fail),
        "fixed_width_read_then_write_back": nfixed,
    })
    classify(ctx, disagreements, direct_fail)


def in_domain(fn, a):
    """value domain of the writer for which reader∘writer = id is claimed"""
    k = a[0]
    if fn in ("write_timedelta_i32", "write_timedelta_i64"):
        return True     # after rounding to whole ms (expected_back)
    if fn in ("write_datetime_i64", "write_nullable_datetime_i64") and k == "D":
        return a[1] % 1000 == 0
    if fn == "write_float64":
        return True
    if fn == "write_uuid":
        return True
    if fn == "write_signed_varint":
        return -2**31 <= a[1] < 2**31
    if fn == "write_signed_varlong":
        return -2**63 <= a[1] < 2**63
    if fn == "write_unsigned_varint":
        return 0 <= a[1] < 2**35
    if fn == "write_unsigned_varlong":
        return 0 <= a[1] < 2**70
    if fn == "write_compact_array_length":
        return -1 <= a[1] < 2**35 - 1
    if fn in ("write_compact_string", "write_nullable_compact_string") and k == "Y":
        return False    # bytes written through the string writer read back as str
    return True


def ms_round_half_even(us):
    q, r = divmod(us, 1000)
    if 2 * r > 1000 or (2 * r == 1000 and q % 2):
        q += 1
    return q


def expected_back(fn, a):
    if fn in ("write_timedelta_i32", "write_timedelta_i64"):
        return ("T", ms_round_half_even(a[1]) * 1000)
    if fn == "write_uuid" and a[0] == "U" and a[1] == bytes(16):
        return ("N",)
    return a


def must_raise(fn, a):
    k = a[0]
    ranges = {"write_int8": (-128, 127), "write_int16": (-2**15, 2**15 - 1),
              "write_int32": (-2**31, 2**31 - 1), "write_int64": (-2**63, 2**63 - 1),
              "write_uint8": (0, 255), "write_uint16": (0, 2**16 - 1), "write_uint32": (0, 2**32 - 1),
              "write_uint64": (0, 2**64 - 1), "write_legacy_array_length": (-2**31, 2**31 - 1)}
    if fn in ranges and k == "I":
        lo, hi = ranges[fn]
        return not lo <= a[1] <= hi
    if fn in ("write_legacy_string", "write_nullable_legacy_string") and k == "S":
        return len(a[1]) > 32767
    if fn == "write_compact_array_length" and k == "I":
        return not -1 <= a[1] <= 2**35 - 2          # -1 is the null array; nothing else is negative
    return False


def classify(ctx, disagreements, direct_fail):
    """property failures on the real code are violations (unless a listed known finding);
    a correspondence break without one is reported as no-failing-input-found"""
    for f in direct_fail[:3]:
        ctx.violation(f"{f['fn']}: property fails on the real code", {**f, "check": "c11"})
    if disagreements and not direct_fail:
        ctx.broken.append(f"correspondence: {len(disagreements)} disagreement(s), first: {disagreements[0]}")
        ctx.notes.append({"disagreements": disagreements[:10]})


def replay(doc):
    rt, wt = readers_table(), writers_table()
    fn = doc.get("fn")
    if "value" in doc and fn in wt:
        a = values.parse_str(doc["value"])
        print("writer", fn, "->", pyside.run_writer(wt[fn], to_py(fn, a)))
    if "bytes" in doc and fn in rt:
        print("reader", fn, "->", pyside.run_reader(rt[fn], bytes.fromhex(doc["bytes"])))
    print("expected:", doc.get("expected"))
    return 1
