"""C02 — encoder output is the Kafka wire format, byte for byte."""
from __future__ import annotations

import random

import codec
import common
import driver
import gen
import pyside
import values

LEAN_MODULE = "Kio.Props.C02"
THEOREMS = ["Kio.C02.impl_eq_spec_ok", "Kio.C02.spec_eq_impl_ok", "Kio.C02.impl_eq_spec",
            "Kio.C02.impl_eq_spec_counterexample", "Kio.C02.shipped", "Kio.C02.float_exact"]

# byte vectors that do not come from kio: hand-assembled from the protocol guide
HAND_VECTORS = [
    # (class key, abstract value, hex) — ApiVersions v0 request has no fields, v3 is flexible
    ("kio.schema.response_header.v0.header:ResponseHeader", "E1 I7", "00000007"),
    ("kio.schema.response_header.v1.header:ResponseHeader", "E1 I7", "0000000700"),
    ("kio.schema.request_header.v1.header:RequestHeader", "E4 I18 I2 I5 S6162", "001200020000000500026162"),
    ("kio.schema.request_header.v1.header:RequestHeader", "E4 I18 I2 I5 N", "0012000200000005ffff"),
    ("kio.schema.request_header.v2.header:RequestHeader", "E4 I3 I9 I-1 S6b", "00030009ffffffff00016b00"),
    ("kio.schema.metadata.v0.request:MetadataRequest", "E1 A2 E1 S61 E1 S6263",
     "00000002" "000161" "00026263"),
    ("kio.schema.api_versions.v3.request:ApiVersionsRequest", "E2 S6b S31", "026b023100"),
]


def run(ctx):
    rng = random.Random(ctx.seed)
    cl = codec.Classes()
    cl.check_driver()
    thorough = ctx.tier == "thorough"
    idxs = codec.choose_classes(len(cl), rng, None if thorough else 420, ctx.seed + 1, cl)
    per = 24 if thorough else 6
    insts = codec.gen_instances(cl, idxs, per, rng)
    lines, meta = [], []
    fails, disagreements = [], []
    nontrivial = set()
    for i, a, obj in insts:
        c = cl.cls(i)
        enc = codec.encode_real(c, obj)
        lines.append(f"spec {i} {values.render(a)}")
        meta.append((i, a, enc))
        if gen.has_nondefault(c, a) and len(enc) > 7:
            nontrivial.add(codec.case_digest(i, a))
    replies = driver.run_parallel(lines, jobs=14)
    nospec = 0
    for (i, a, py), lr in zip(meta, replies):
        if lr == "none":
            nospec += 1
            if py.startswith("ok"):
                fails.append({"what": "encoder emitted bytes where the format has no encoding", "class": cl.keys[i],
                              "value": values.render(a)[:3000], "python": py[:600]})
        elif py != lr:
            fails.append({"what": "encoder output differs from the Kafka wire format", "class": cl.keys[i],
                          "value": values.render(a)[:3000], "python": py[:1200], "spec": lr[:1200]})
    # vectors that do not come from kio
    key_to_idx = {k: n for n, k in enumerate(cl.keys)}
    hv = 0
    for key, val, hx in HAND_VECTORS:
        if key not in key_to_idx:
            continue
        i = key_to_idx[key]
        a = values.parse_str(val)
        py = codec.encode_real(cl.cls(i), values.build(a, cl.cls(i)))
        sp = driver.run_batch([f"spec {i} {val}"])[0]
        hv += 1
        if py != f"ok {hx}":
            fails.append({"what": "hand-assembled vector: encoder differs", "class": key, "value": val, "python": py, "spec": f"ok {hx}"})
        if sp != f"ok {hx}":
            ctx.broken.append(f"Spec.enc disagrees with hand-assembled vector {key} {val}: {sp}")
    ctx.coverage.update({
        "evaluations": len(insts) + hv, "distinct_nontrivial": len(nontrivial),
        "rule": "case = (class, canonical value); real writer bytes vs Spec.enc evaluated in Lean; "
                "non-trivial iff a non-default field and ≥ 2 bytes; distinct by SHA-1",
        "classes_covered": len(idxs), "no_encoding_cases": nospec, "hand_vectors": hv,
        "property_failures_on_code": len(fails),
        "samples": [{"class": cl.keys[i], "value": values.render(a)[:200], "bytes": py[:120]} for i, a, py in meta[:: max(1, len(meta) // 6)][:6]],
    })
    for f in fails[:3]:
        ctx.violation(f"{f['class']}: {f['what']}", {**f, "check": "c02"})


def replay(doc):
    import importlib
    mod, qn = doc["class"].split(":")
    c = getattr(importlib.import_module(mod), qn)
    a = values.parse_str(doc["value"])
    print("encode:", codec.encode_real(c, values.build(a, c))[:600])
    print("spec  :", doc.get("spec", "")[:600])
    return 1
