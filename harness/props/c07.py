"""C07 — messages are self-delimiting on a sequential stream; sink/source kind does not matter."""
from __future__ import annotations

import asyncio
import io
import random

import codec
import common
import driver
import gen
import pyside
import values

LEAN_MODULE = "Kio.Props.C07"
THEOREMS = ["Kio.C07.stream", "Kio.C07.header_payload", "Kio.C07.leading_irrelevant"]


class WriteOnlySink:
    """exposes only write(); anything else raises"""
    __slots__ = ("_chunks", "calls")

    def __init__(self):
        object.__setattr__(self, "_chunks", [])
        object.__setattr__(self, "calls", [])

    def write(self, data):
        self._chunks.append(bytes(data))
        return len(data)

    def __getattr__(self, name):
        object.__getattribute__(self, "calls").append(name)
        raise AttributeError(f"sink has no {name}")

    def value(self):
        return b"".join(self._chunks)


class RetainingSink:
    """keeps the very objects it was handed (as a transport queueing data by reference does) and
    only looks at them at the end: what was written must not be changed afterwards"""

    def __init__(self):
        self.chunks = []

    def write(self, data):
        self.chunks.append(data)
        return len(data)

    def value(self):
        out = []
        for c in self.chunks:
            try:
                out.append(bytes(c))
            except Exception as e:  # noqa: BLE001 - e.g. a memoryview released after write() returned
                out.append(f"<<chunk unusable after write() returned: {type(e).__name__}: {e}>>".encode())
        return b"".join(out)


def widen_arrays(obj, n=600):
    """`obj` with its arrays of fixed-width integers grown to `n` distinct items (several blocks of
    any internal batching), nested structures included"""
    import dataclasses
    import typing
    if not dataclasses.is_dataclass(obj) or isinstance(obj, type):
        return obj
    hints = typing.get_type_hints(type(obj))
    ch = {}
    for f in dataclasses.fields(obj):
        v = getattr(obj, f.name)
        kt = f.metadata.get("kafka_type")
        if isinstance(v, tuple) and kt in ("int8", "int16", "int32", "int64", "uint16", "uint32"):
            lim = {"int8": 127, "int16": 2**15 - 1, "uint16": 2**16 - 1}.get(kt, 2**31 - 1)
            ch[f.name] = tuple((7 * j + 1) % lim for j in range(n))
        elif isinstance(v, tuple) and v and dataclasses.is_dataclass(v[0]):
            ch[f.name] = (widen_arrays(v[0], n),) + v[1:]
        elif dataclasses.is_dataclass(v) and not isinstance(v, type):
            ch[f.name] = widen_arrays(v, n)
    return dataclasses.replace(obj, **ch) if ch else obj


def widen_struct_arrays(obj, n=130):
    """`obj` with every non-empty array of structures repeated up to `n` elements (the array length then
    needs a multi-byte varint), nested ones in the first element too"""
    import dataclasses
    if not dataclasses.is_dataclass(obj) or isinstance(obj, type):
        return obj
    ch = {}
    for f in dataclasses.fields(obj):
        v = getattr(obj, f.name)
        if isinstance(v, tuple) and v and dataclasses.is_dataclass(v[0]):
            first = widen_struct_arrays(v[0], max(2, n // 40))
            ch[f.name] = (first,) + tuple(v[j % len(v)] for j in range(1, n))
    return dataclasses.replace(obj, **ch) if ch else obj


class ReadOnlySource:
    """exposes only read(n) with an explicit non-negative int"""
    __slots__ = ("_data", "pos", "bad")

    def __init__(self, data):
        object.__setattr__(self, "_data", data)
        object.__setattr__(self, "pos", 0)
        object.__setattr__(self, "bad", [])

    def read(self, n=None):
        if not isinstance(n, int) or isinstance(n, bool) or n < 0:
            self.bad.append(("read", n))
            n = len(self._data) if n is None or (isinstance(n, int) and n < 0) else int(n)
        out = self._data[self.pos:self.pos + n]
        object.__setattr__(self, "pos", self.pos + len(out))
        return out

    def __getattr__(self, name):
        object.__getattribute__(self, "bad").append(("attr", name))
        raise AttributeError(f"source has no {name}")


class RecordingTransport(asyncio.Transport):
    def __init__(self):
        super().__init__()
        self.chunks = []

    def write(self, data):
        self.chunks.append(bytes(data))

    def is_closing(self):
        return False


def stream_writer():
    loop = asyncio.new_event_loop()
    tr = RecordingTransport()
    proto = asyncio.StreamReaderProtocol(asyncio.StreamReader(loop=loop), loop=loop)
    w = asyncio.StreamWriter(tr, proto, None, loop)
    return w, tr, loop


def spoil_last_int(ent):
    """`ent` with its last untagged integer field out of range (earlier fields are written first)"""
    import dataclasses
    fs = [f for f in dataclasses.fields(ent) if "tag" not in f.metadata]
    ints = [n for n, f in enumerate(fs) if f.metadata.get("kafka_type") in ("int8", "int16", "int32", "int64", "uint16", "uint32")]
    if not ints or ints[-1] == 0:
        return None
    return dataclasses.replace(ent, **{fs[ints[-1]].name: 2**70})


def spoil(obj, rng):
    """a copy of `obj` whose LAST integer-typed field (tagged ones preferred: they are written last)
    is out of range, so that encoding fails after most of the message was produced"""
    import dataclasses
    fs = dataclasses.fields(obj)
    # a failure *inside* the payload of a tagged structure / array of structures happens after part of
    # that payload was staged: prefer it when the message has one
    deep = []
    for f in fs:
        if "tag" not in f.metadata:
            continue
        v = getattr(obj, f.name)
        if dataclasses.is_dataclass(v) and not isinstance(v, type):
            deep.append((f, None))
        elif isinstance(v, tuple) and v and dataclasses.is_dataclass(v[-1]):
            deep.append((f, len(v) - 1))
    if deep and rng.random() < 0.7:
        f, k = rng.choice(deep)
        v = getattr(obj, f.name)
        sub = spoil_last_int(v if k is None else v[k])
        if sub is not None:
            return dataclasses.replace(obj, **{f.name: sub if k is None else v[:k] + (sub,)})
    cands = [f for f in fs if f.metadata.get("kafka_type") in ("int8", "int16", "int32", "int64", "uint16", "uint32")]
    if not cands:
        for f in reversed(fs):
            v = getattr(obj, f.name)
            if dataclasses.is_dataclass(v) and not isinstance(v, type):
                sub = spoil(v, rng)
                if sub is not None:
                    return dataclasses.replace(obj, **{f.name: sub})
            if isinstance(v, tuple) and v and dataclasses.is_dataclass(v[-1]):
                sub = spoil(v[-1], rng)
                if sub is not None:
                    return dataclasses.replace(obj, **{f.name: v[:-1] + (sub,)})
        return None
    tagged = [f for f in cands if "tag" in f.metadata]
    f = max(tagged, key=lambda f: f.metadata["tag"]) if tagged else cands[-1]
    return dataclasses.replace(obj, **{f.name: 2**70})


def run(ctx):
    from kio.serial import entity_reader, entity_writer

    nspoiled = [0]

    rng = random.Random(ctx.seed)
    cl = codec.Classes()
    cl.check_driver()
    thorough = ctx.tier == "thorough"
    import dataclasses as _dc
    payload_idx = [i for i in range(len(cl)) if cl.cls(i).__type__.name in ("request", "response")]
    # payload classes with several tagged fields (staged separately by the writer) are over-sampled
    multi_tag = [i for i in payload_idx if sum(1 for f in _dc.fields(cl.cls(i)) if "tag" in f.metadata) >= 2]
    nseq = 400 if thorough else 80
    fails, lines, meta = [], [], []
    nmsgs = 0
    nontrivial = set()
    kinds_used = {"bytesio": 0, "write_only": 0, "retaining": 0, "stream_writer": 0, "read_only": 0}
    for s in range(nseq):
        k = rng.choice([1, 2, 3, 5])
        msgs = []
        for _ in range(k):
            pi = rng.choice(multi_tag) if (multi_tag and rng.random() < 0.35) else rng.choice(payload_idx)
            pc = cl.cls(pi)
            hc = pc.__header_schema__
            hi = cl.keys.index(f"{hc.__module__}:{hc.__qualname__}")
            g = codec.gen_instances(cl, [hi, pi], 1, rng, big_strings=False)
            msgs.extend(g)
        leading = bytes(rng.getrandbits(8) for _ in range(rng.choice([0, 1, 4, 9])))
        trailing = bytes(rng.getrandbits(8) for _ in range(rng.choice([0, 1, 3, 8])))
        # encode the same sequence to three kinds of sink
        outs = {}
        sink1 = io.BytesIO(); sink1.write(leading)
        sink2 = WriteOnlySink(); sink2.write(leading)
        sink3 = RetainingSink(); sink3.write(leading)
        if rng.random() < 0.12:
            msgs = [(i, values.abstract(w), w) for i, a, obj in msgs for w in (widen_arrays(obj),)]
        sw, tr, loop = stream_writer(); sw.write(leading)
        try:
            for i, a, obj in msgs:
                c = cl.cls(i)
                # a message that cannot be encoded (a value out of range in its last field), staged to a
                # throw-away buffer as an application would before sending: it must leave no trace
                if rng.random() < 0.5:
                    bad = spoil(obj, rng)
                    if bad is not None:
                        try:
                            entity_writer(c)(io.BytesIO(), bad)
                        except Exception:  # noqa: BLE001
                            nspoiled[0] += 1
                entity_writer(c)(sink1, obj)
                entity_writer(c)(sink2, obj)
                entity_writer(c)(sink3, obj)
                entity_writer(c)(sw, obj)
        except Exception as e:  # noqa: BLE001
            loop.close()
            continue
        loop.close()
        outs["bytesio"] = sink1.getvalue()
        outs["write_only"] = sink2.value()
        outs["retaining"] = sink3.value()
        outs["stream_writer"] = b"".join(tr.chunks)
        for kd in outs:
            kinds_used[kd] += 1
        if sink2.calls:
            fails.append({"what": f"encoder used sink methods other than write: {sink2.calls[:3]}", "classes": [cl.keys[i] for i, _, _ in msgs]})
        if len(set(outs.values())) != 1:
            fails.append({"what": "bytes depend on the kind of sink", "classes": [cl.keys[i] for i, _, _ in msgs],
                          "outs": {k: v.hex()[:400] for k, v in outs.items()}})
        data = outs["bytesio"] + trailing
        # decode the whole sequence from a read-only source, after consuming the leading bytes
        src = ReadOnlySource(data)
        src.read(len(leading))
        kinds_used["read_only"] += 1
        ok = True
        pos = len(leading)
        for i, a, obj in msgs:
            c = cl.cls(i)
            try:
                v = entity_reader(c)(src)
            except Exception as e:  # noqa: BLE001
                fails.append({"what": f"sequential decode raised {type(e).__name__} at message {cl.keys[i]}",
                              "classes": [cl.keys[j] for j, _, _ in msgs], "bytes": data.hex()[:4000], "leading": len(leading)})
                ok = False
                break
            got = values.render(values.abstract(v))
            if got != values.render(a) and v != obj:
                fails.append({"what": f"message {cl.keys[i]} decoded to a different value in sequence",
                              "classes": [cl.keys[j] for j, _, _ in msgs], "bytes": data.hex()[:4000], "leading": len(leading)})
                ok = False
                break
            # model: this message alone, from its position
            lines.append(f"enc {i} {values.render(a)}")
            meta.append(("enc", i, a, None))
            nmsgs += 1
            if gen.has_nondefault(c, a):
                nontrivial.add(codec.case_digest(i, a, str(s)))
        if ok:
            if src.pos != len(data) - len(trailing):
                fails.append({"what": "sequence did not consume exactly its own bytes", "classes": [cl.keys[j] for j, _, _ in msgs],
                              "bytes": data.hex()[:4000], "leading": len(leading), "pos": src.pos})
            if src.bad:
                fails.append({"what": f"decoder used the source other than through read(n>=0): {src.bad[:3]}",
                              "classes": [cl.keys[j] for j, _, _ in msgs]})
            # model bytes of the whole sequence = concatenation
            meta.append(("seq", None, None, (outs["bytesio"][len(leading):], len(lines))))
    replies = driver.run_parallel(lines, jobs=12)
    # concatenated model encodings must equal the real stream
    disagreements = []
    acc = b""
    ri = 0
    pending = b""
    for m in meta:
        if m[0] == "enc":
            r = replies[ri]; ri += 1
            pending += values.unhex_tok(r.split()[1]) if r.startswith("ok") else b"<ERR>"
        else:
            real, _ = m[3]
            if pending != real:
                disagreements.append({"what": "model concatenation differs from real stream", "model": pending.hex()[:600], "python": real.hex()[:600]})
            pending = b""
    ctx.coverage.update({
        "evaluations": nseq, "distinct_nontrivial": len(nontrivial),
        "rule": "case = a sequence of 1–5 (header, payload) messages of random payload classes with random leading "
                "and trailing bytes, written to BytesIO / write-only sink / asyncio.StreamWriter and read back "
                "from a read-only source; non-trivial message iff a non-default field",
        "messages": nmsgs, "failed_encodes_interleaved": nspoiled[0], "sink_source_kinds": kinds_used,
        "disagreements": len(disagreements), "property_failures_on_code": len(fails),
        "samples": [{"classes": [cl.keys[i] for i, _, _ in msgs][:4]}],
    })
    for f in fails[:3]:
        ctx.violation(f["what"], {**f, "check": "c07"})
    if disagreements and not fails:
        ctx.broken.append(f"correspondence: {len(disagreements)}; first: {disagreements[0]}")


def replay(doc):
    print(doc.get("what"))
    print("classes:", doc.get("classes"))
    return 1
