"""C17 — new record batches are written in the Kafka v2 batch format."""
from __future__ import annotations

import random

import common
import driver
import pyside
import recgen
import values

LEAN_MODULE = "Kio.Props.C17"
THEOREMS = [
    "Kio.C17.float_exact",
    "Kio.C17.layout",
    "Kio.C17.complete",
    "Kio.C17.spec_roundtrip",
    "Kio.C17.independent_decode",
    "Kio.C17.crc_covers",
    "Kio.C17.crc_check_value",
    "Kio.C17.shipped_truncation_witness",
    "Kio.C17.current_repaired",
]


def run(ctx):
    rng = random.Random(ctx.seed)
    n = 2500 if ctx.tier == "thorough" else 300
    batches = [recgen.gen_new_batch(rng, big=(i % 10 == 0)) for i in range(n)]
    lines, meta = [], []
    fails, disagreements = [], []
    nontrivial = set()
    # records that are equal as Python values but different on the wire: aware timestamps that differ
    # only in `fold` (PEP 495) — same wall clock, one hour apart; every record must be written from its
    # own instant
    import dataclasses
    import datetime
    fold_objs = {}
    try:
        from zoneinfo import ZoneInfo
        z = ZoneInfo("Europe/Berlin")
        f0 = datetime.datetime(2023, 10, 29, 2, 30, tzinfo=z, fold=0)
        f1 = datetime.datetime(2023, 10, 29, 2, 30, tzinfo=z, fold=1)
        if f1.timestamp() - f0.timestamp() == 3600:
            for _ in range(8):
                a = recgen.gen_new_batch(rng)
                r0 = a[1][4][1][0]
                recs = []
                for fdt in (f0, f1, f0):
                    rr = list(r0[1]); rr[1] = ("D", int(fdt.timestamp()) * 10**6)
                    recs.append(("E", rr))
                a[1][4] = ("A", recs)
                batches.append(a)
                fold_objs[id(a)] = (f0, f1, f0)
    except Exception:  # noqa: BLE001 - no tz database
        pass
    # counts and sizes at the boundaries of the zig-zag varints that prefix them: 63/64 (one → two
    # bytes) and 8191/8192 (two → three) headers, header keys, header values, keys, values
    for nh in (63, 64, 65, 127, 128, 200) + ((8191, 8192) if ctx.tier == "thorough" else ()):
        a = recgen.gen_new_batch(rng)
        r0 = list(a[1][4][1][0][1])
        r0[5] = ("A", [("E", [("Y", b"h%d" % j), ("Y", bytes([j % 251]) * (j % 3)) if j % 5 else ("N",)]) for j in range(nh)])
        a[1][4] = ("A", [("E", r0)] + a[1][4][1][1:3])
        batches.append(a)
    for sz in (63, 64, 65, 8191, 8192, 8193):
        a = recgen.gen_new_batch(rng)
        r0 = list(a[1][4][1][0][1])
        r0[3] = ("Y", bytes(sz)); r0[4] = ("Y", b"\x01" * sz)
        r0[5] = ("A", [("E", [("Y", b"k" * sz), ("Y", b"v" * sz)])])
        a[1][4] = ("A", [("E", r0)])
        batches.append(a)
    # the same record *object* at both ends of a batch (records are shareable values): equal inputs must
    # encode equally whether or not their parts are the same objects
    shared = set()
    for _ in range(6):
        a = recgen.gen_new_batch(rng)
        r0 = a[1][4][1][0]
        mid = list(r0[1]); mid[1] = ("D", r0[1][1][1] + 5_000_000); mid[2] = ("I", r0[1][2][1] + 1)
        a[1][4] = ("A", [r0, ("E", mid), r0])
        batches.append(a)
        shared.add(id(a))
    for a in batches:
        try:
            nb = recgen.build_new_batch(a)
            if id(a) in shared:
                nb = dataclasses.replace(nb, records=(nb.records[0], nb.records[1], nb.records[0]))
            if id(a) in fold_objs:
                nb = dataclasses.replace(nb, records=tuple(
                    dataclasses.replace(r, timestamp=t) for r, t in zip(nb.records, fold_objs[id(a)])))
        except Exception:
            continue
        py = recgen.write_real(nb)
        wire = recgen.derive_wire(a)
        lines.append("wbatch " + values.render(a)); meta.append(("model", a, py))
        lines.append("specbatch " + values.render(wire)); meta.append(("spec", a, py))
        if py.startswith("ok"):
            lines.append("specdec " + py.split()[1]); meta.append(("specdec", a, "ok " + values.render(wire)))
        if any(r[1][3][0] != "N" or r[1][4][0] != "N" for r in a[1][4][1]):
            nontrivial.add(common.digest(values.render(a)))
    replies = driver.run_parallel(lines, jobs=12)
    kinds = {}
    outside = set()
    for (kind, a, py), lr in zip(meta, replies):
        kinds[kind + ":" + lr.split()[0]] = kinds.get(kind + ":" + lr.split()[0], 0) + 1
        if kind == "model":
            if not pyside.same_enc_outcome(py, lr):
                disagreements.append({"op": "write_batch", "batch": values.render(a)[:3000], "python": py[:600], "model": lr[:600]})
        elif kind == "spec":
            # the property on the real code: bytes = the independent layout of the derived parameters
            if lr.startswith("ok") and py != lr:
                fails.append({"batch": values.render(a)[:4000], "python": py[:800], "spec": lr[:800],
                              "what": "write_batch output differs from the v2 layout of the derived batch"})
            if lr == "none":
                outside.add(id(a))     # deltas/fields not representable: outside C17's quantifier
        elif kind == "specdec":
            if id(a) not in outside and lr != py:
                fails.append({"batch": values.render(a)[:4000], "decoded": lr[:800], "expected": py[:800],
                              "what": "independent decoder does not recover records/parameters from write_batch output"})
    ctx.coverage.update({
        "evaluations": len(batches), "distinct_nontrivial": len(nontrivial),
        "rule": "case = generated NewRecordBatch; non-trivial iff ≥1 record with non-null key or value; distinct by SHA-1",
        "fold_twin_batches": len(fold_objs), "reply_kinds": kinds, "outside_representable_domain": len(outside), "disagreements": len(disagreements), "property_failures_on_code": len(fails),
        "samples": [values.render(a)[:300] for a in batches[:3]],
    })
    classify(ctx, fails, disagreements)


def classify(ctx, fails, disagreements):
    for f in fails[:3]:
        ctx.violation(f["what"], {**f, "check": "c17"})
    if disagreements and not fails:
        ctx.broken.append(f"correspondence write_batch: {len(disagreements)}; first: {disagreements[0]}")


def replay(doc):
    a = values.parse_str(doc["batch"])
    print("write_batch:", recgen.write_real(recgen.build_new_batch(a))[:400])
    print("expected (spec):", doc.get("spec", doc.get("expected", ""))[:400])
    return 1
