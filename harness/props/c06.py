"""C06 — truncated input is always reported, never decoded to a value."""
from __future__ import annotations

import random

import codec
import common
import driver
import gen
import pyside
import values

LEAN_MODULE = "Kio.Props.C06"
THEOREMS = ["Kio.C06.prefix_underflow", "Kio.C06.shipped_coherent", "Kio.C06.float_exact"]


class MinimalSource:
    """only read(n); everything else is an AttributeError"""
    __slots__ = ("_d", "_p")

    def __init__(self, data):
        self._d, self._p = data, 0

    def read(self, n=-1):
        out = self._d[self._p:] if n is None or n < 0 else self._d[self._p:self._p + n]
        self._p += len(out)
        return out


def run(ctx):
    from kio.serial import entity_reader

    rng = random.Random(ctx.seed)
    cl = codec.Classes()
    cl.check_driver()
    thorough = ctx.tier == "thorough"
    idxs = codec.choose_classes(len(cl), rng, None if thorough else 300, ctx.seed + 2, cl)
    per = 4 if thorough else 3
    insts = codec.gen_instances(cl, idxs, per, rng, big_strings=False)
    lines, meta, fails, disagreements = [], [], [], []
    nontrivial = set()
    cuts = 0
    for i, a, obj in insts:
        c = cl.cls(i)
        enc = codec.encode_real(c, obj)
        if not enc.startswith("ok"):
            continue
        data = values.unhex_tok(enc.split()[1])
        if len(data) > 600:
            ks = sorted(set(range(0, 64)) | {rng.randrange(len(data)) for _ in range(100)} | set(range(len(data) - 64, len(data))))
        else:
            ks = range(len(data))
        # the same from a source that offers nothing but read(n) (a socket-like object: no tell, no
        # seek, no peek) — "connection closed" is where truncation really happens
        for k in sorted({0, 1, len(data) // 2, len(data) - 1} & set(range(len(data)))):
            try:
                entity_reader(c)(MinimalSource(data[:k]))
                r2 = "ok"
            except Exception as e:  # noqa: BLE001
                r2 = f"err {pyside.exc_class(e)} {type(e).__name__}"
            cuts += 1
            if r2 != "err underflow BufferUnderflow":
                fails.append({"what": f"prefix of {k}/{len(data)} bytes read from a read()-only source does not raise "
                                      f"BufferUnderflow", "class": cl.keys[i], "value": values.render(a)[:2000],
                              "bytes": data[:k].hex(), "python": r2[:400]})
        for k in ks:
            r = codec.decode_real(c, data[:k])
            cuts += 1
            if r != "err underflow BufferUnderflow":
                fails.append({"what": f"prefix of {k}/{len(data)} bytes does not raise BufferUnderflow", "class": cl.keys[i],
                              "value": values.render(a)[:2000], "bytes": data[:k].hex(), "python": r[:400]})
            if k % 3 == 0 or len(data) < 40:
                lines.append(f"dec {i} {values.hex_tok(data[:k])}")
                meta.append((i, data[:k], r))
        if gen.has_nondefault(c, a) and len(data) >= 2:
            nontrivial.add(codec.case_digest(i, a))
    replies = driver.run_parallel(lines, jobs=14)
    for (i, d, r), lr in zip(meta, replies):
        if not pyside.same_outcome(r, lr):
            disagreements.append({"class": cl.keys[i], "bytes": d.hex()[:1000], "python": r[:300], "model": lr[:300]})
    ctx.coverage.update({
        "evaluations": cuts, "distinct_nontrivial": len(nontrivial),
        "rule": "case = (class, instance, cut position); every cut 0..len-1 of every generated encoding (sampled "
                "cuts above 600 bytes); non-trivial instance iff non-default field and ≥ 2 bytes",
        "classes_covered": len(idxs), "instances": len(insts), "model_requests": len(lines),
        "disagreements": len(disagreements), "property_failures_on_code": len(fails),
        "samples": [{"class": cl.keys[i], "prefix": d.hex()[:80], "python": r} for i, d, r in meta[:: max(1, len(meta) // 6)][:6]],
    })
    for f in fails[:3]:
        ctx.violation(f"{f['class']}: {f['what']}", {**f, "check": "c06"})
    if disagreements and not fails:
        ctx.broken.append(f"correspondence dec on prefixes: {len(disagreements)}; first: {disagreements[0]}")


def replay(doc):
    import importlib
    mod, qn = doc["class"].split(":")
    c = getattr(importlib.import_module(mod), qn)
    print("decode prefix:", codec.decode_real(c, bytes.fromhex(doc["bytes"]))[:400])
    print("expected: err underflow BufferUnderflow")
    return 1
