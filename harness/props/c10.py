"""C10 — malformed input fails fast with a decode error, never an internal error or hang."""
from __future__ import annotations

import io
import random
import time

import codec
import common
import driver
import pyside
import values

LEAN_MODULE = "Kio.Props.C10"
THEOREMS = ["Kio.C10.errors_allowed", "Kio.C10.consumes_prefix",
            "Kio.C10.keyError_reachable_when_not_skipping", "Kio.C10.shipped_errors_allowed",
            "Kio.C10.linear_steps", "Kio.C10.steps_erase", "Kio.C10.current_skips",
            "Kio.C10.linear_steps_all", "Kio.C10.huge_count_is_cheap"]


def mutate(rng: random.Random, data: bytes) -> bytes:
    b = bytearray(data)
    for _ in range(rng.choice([1, 1, 1, 2, 3])):
        op = rng.random()
        pos = rng.randrange(len(b) + 1) if b else 0
        # bias: beginnings (length prefixes) and ends (tagged sections)
        if b and rng.random() < 0.5:
            pos = min(len(b) - 1, rng.choice([0, 1, 2, 3, len(b) - 1, len(b) - 2, len(b) - 3, pos]))
            pos = max(pos, 0)
        if op < 0.45 and b:
            pos = min(pos, len(b) - 1)
            b[pos] = rng.choice([0, 1, 2, 0x7F, 0x80, 0x81, 0xFF, 0xFE, b[pos] ^ 0x80, b[pos] ^ 1, rng.getrandbits(8)])
        elif op < 0.7:
            b[pos:pos] = bytes(rng.choice([[0x80], [0xFF], [0], [1, 99, 2, 0xAA, 0xBB], [0xFF] * 5, [rng.getrandbits(8)]]))
        elif b:
            pos = min(pos, len(b) - 1)
            del b[pos:pos + rng.choice([1, 1, 2, 4])]
    return bytes(b)


def leaf_paths(a, cls, path=()):
    """paths to the string / bytes leaves of an abstract instance (first two elements of arrays),
    with the dataclass field they belong to"""
    import dataclasses
    import typing
    hints = typing.get_type_hints(cls)
    for j, (f, x) in enumerate(zip(dataclasses.fields(cls), a[1])):
        sub = values.leaf_type(hints[f.name])
        if x[0] in ("S", "Y"):
            yield path + (j,), f
        elif x[0] == "E":
            yield from leaf_paths(x, sub, path + (j,))
        elif x[0] == "A":
            for k, y in enumerate(x[1][:2]):
                if y[0] == "E":
                    yield from leaf_paths(y, sub, path + (j, k))
                elif y[0] in ("S", "Y"):
                    yield path + (j, k), f


def set_path(a, path, leaf):
    if not path:
        return leaf
    items = list(a[1])
    items[path[0]] = set_path(items[path[0]], path[1:], leaf)
    return (a[0], items)


def null_marker_cases(cls, a, rng, limit=3):
    """encodings in which the length prefix of one string / bytes / records leaf (at any depth) says
    *null*: found by encoding the instance with that leaf empty and with one byte, and overwriting the
    length prefix where the two encodings first differ"""
    out = []
    paths = list(leaf_paths(a, cls))
    rng.shuffle(paths)
    for path, f in paths[:limit]:
        kind = "S" if f.metadata.get("kafka_type") == "string" else "Y"
        e0 = codec.encode_real(cls, values.build(set_path(a, path, (kind, b"")), cls))
        e1 = codec.encode_real(cls, values.build(set_path(a, path, (kind, b"x")), cls))
        if not (e0.startswith("ok") and e1.startswith("ok")):
            continue
        b0, b1 = values.unhex_tok(e0.split()[1]), values.unhex_tok(e1.split()[1])
        if len(b1) != len(b0) + 1:
            continue
        p = next((k for k in range(len(b0)) if b0[k] != b1[k]), None)
        if p is None:
            continue
        if b0[p] == 1 and b1[p] == 2:                      # compact length (n + 1): 0 means null
            out.append(b0[:p] + b"\x00" + b0[p + 1:])
        elif b0[p] == 0 and b1[p] == 1:                    # legacy length: -1 means null
            w = 2 if kind == "S" else 4
            if p + 1 >= w:
                out.append(b0[:p + 1 - w] + b"\xff" * w + b0[p + 1:])
    return out


def run(ctx):
    from kio.serial import entity_reader, entity_writer

    rng = random.Random(ctx.seed)
    cl = codec.Classes()
    cl.check_driver()
    thorough = ctx.tier == "thorough"
    idxs = list(range(len(cl)))
    per = 120 if thorough else 14
    seeds = codec.gen_instances(cl, idxs, 1, rng, big_strings=False)
    cases = []
    for i, a, obj in seeds:
        enc = codec.encode_real(cl.cls(i), obj)
        base = values.unhex_tok(enc.split()[1]) if enc.startswith("ok") else b""
        for k in range(per):
            c = rng.random()
            if c < 0.65 and base:
                data = mutate(rng, base)
            elif c < 0.8:
                data = bytes(rng.getrandbits(8) for _ in range(rng.choice([0, 1, 2, 3, 5, 8, 13, 30, 60])))
            elif c < 0.9 and base:
                # unknown / duplicated tagged fields appended to a flexible encoding
                data = base[:-1] + bytes([rng.choice([1, 2]), rng.choice([0, 1, 5, 99, 127]), 2, 0xAA, 0xBB, 0, 0])
            else:
                data = base + bytes(rng.getrandbits(8) for _ in range(3))
            cases.append((i, data))
        # a null marker where a string / bytes / records value stands, at any nesting depth
        try:
            for data in null_marker_cases(cl.cls(i), a, rng, limit=(6 if thorough else 2)):
                cases.append((i, data))
        except Exception as e:  # noqa: BLE001 - construction of the probe, not the property
            ctx.notes.append(f"null-marker probe skipped for {cl.keys[i]}: {type(e).__name__}")
        # known tags with degenerate payloads (null / empty markers, nothing at all, one stray byte):
        # whatever the reader makes of them must be an error of the allowed kind or a value the
        # encoder takes back
        import dataclasses as _dc
        c_ = cl.cls(i)
        if base and c_.__flexible__:
            plain = codec.encode_real(c_, _dc.replace(obj, **{f.name: f.default for f in _dc.fields(c_)
                                                               if "tag" in f.metadata and f.default is not _dc.MISSING}))
            if plain.startswith("ok"):
                pb = values.unhex_tok(plain.split()[1])
                tags = sorted(int(f.metadata["tag"]) for f in _dc.fields(c_) if "tag" in f.metadata)
                if tags and pb and pb[-1] == 0:
                    for t in tags:
                        if t < 128:
                            for payload in (b"\x00", b"\x01", b"", b"\x02\x00", b"\xff", b"\x00\x00"):
                                cases.append((i, pb[:-1] + bytes([1, t, len(payload)]) + payload))
    fails, disagreements, lines, meta = [], [], [], []
    outcome = {}
    nontrivial = set()
    slow = 0
    for i, data in cases:
        c = cl.cls(i)
        rd = entity_reader(c)
        buf = io.BytesIO(data)
        t0 = time.perf_counter()
        try:
            v = rd(buf)
            res = f"ok {buf.tell()} {values.render(values.abstract(v))}"
        except Exception as e:  # noqa: BLE001
            v = None
            res = f"err {pyside.exc_class(e)} {type(e).__name__}"
        dt = time.perf_counter() - t0
        key = res.split()[0] + ":" + res.split()[1] if res.startswith("err") else "ok"
        outcome[key] = outcome.get(key, 0) + 1
        if dt > 2.0 and len(data) <= 4096:
            # a stall of the machine is not a slow decode: measure again, keep the fastest
            for _ in range(3):
                t1 = time.perf_counter()
                try:
                    rd(io.BytesIO(data))
                except Exception:  # noqa: BLE001
                    pass
                dt = min(dt, time.perf_counter() - t1)
        if dt > 2.0 and len(data) <= 4096:
            slow += 1
            fails.append({"what": f"decode took {dt:.1f}s on {len(data)} bytes", "class": cl.keys[i], "bytes": data.hex()})
        if res.startswith("err internal"):
            fails.append({"what": f"internal error {res.split()[2]} on malformed input", "class": cl.keys[i],
                          "bytes": data.hex(), "python": res})
        if res.startswith("ok"):
            if buf.tell() > len(data):
                fails.append({"what": "consumed more than given", "class": cl.keys[i], "bytes": data.hex()})
            w = codec.encode_real(c, v)
            if not w.startswith("ok"):
                fails.append({"what": "decoded value cannot be encoded again", "class": cl.keys[i],
                              "bytes": data.hex(), "python": w})
        lines.append(f"dec {i} {values.hex_tok(data)}")
        meta.append((i, data, res))
        if len(data) >= 2:
            nontrivial.add(common.digest([i, data.hex()]))
    # ---- scaling: time proportional to the input size -------------------------------------------
    # the same message shape at sizes n, 4n, 16n (many array elements; one long string; a truncated
    # copy of each).  CPU time, best of three; growth is judged between the two largest sizes.
    scaling = {}
    try:
        import dataclasses as _dc
        key = "kio.schema.metadata.v12.response:MetadataResponse"
        ci = cl.keys.index(key)
        C = cl.cls(ci)
        base_obj = next(o for i, a, o in seeds if i == ci)
        topic = None
        for i, a, o in codec.gen_instances(cl, [ci], 6, random.Random(ctx.seed + 11), big_strings=False):
            if o.topics:
                topic = o.topics[0]
                break
        import gc
        def cpu(fn, reps=3):
            best = None
            gc.collect(); gc.disable()          # the collector's own cost is not the decoder's
            try:
                for _ in range(reps):
                    t0 = time.process_time(); fn(); dt = time.process_time() - t0
                    best = dt if best is None else min(best, dt)
            finally:
                gc.enable()
            return best
        if topic is not None:
            shapes = {
                "array": lambda k: _dc.replace(base_obj, topics=(topic,) * k),
                "string": lambda k: _dc.replace(base_obj, topics=(), cluster_id="x" * (40 * k)),
            }
            for label, mk in shapes.items():
                times = []
                for k in (3000, 12000, 48000):
                    buf = io.BytesIO(); entity_writer(C)(buf, mk(k)); data = buf.getvalue()
                    rd = entity_reader(C)
                    t_ok = cpu(lambda: rd(io.BytesIO(data)))
                    def cut():
                        try:
                            rd(io.BytesIO(data[:-1]))
                        except Exception:  # noqa: BLE001
                            pass
                    t_cut = cpu(cut)
                    times.append((len(data), t_ok, t_cut))
                scaling[label] = [(n, round(a, 4), round(b, 4)) for n, a, b in times]
                for which, idx in (("valid", 1), ("truncated", 2)):
                    # growth between the two largest sizes (4× the input): ≈ 4 when linear, 16 when
                    # quadratic, ≈ 8 when a quadratic term with a small constant (copying) has taken over
                    mid, large = max(times[1][idx], 1e-4), times[2][idx]
                    if large / mid > 7 and large > 0.5:
                        # measure the pair once more, more carefully, before believing it
                        again = []
                        for k in (12000, 48000):
                            buf = io.BytesIO(); entity_writer(C)(buf, mk(k)); d2 = buf.getvalue()
                            d2 = d2 if which == "valid" else d2[:-1]
                            def run2():
                                try:
                                    entity_reader(C)(io.BytesIO(d2))
                                except Exception:  # noqa: BLE001
                                    pass
                            again.append(cpu(run2, reps=5))
                        mid, large = max(again[0], 1e-4), again[1]
                    if large / mid > 7 and large > 0.5:
                        fails.append({"what": f"decode time grows faster than the input: {label}/{which} input of "
                                              f"{times[2][0]} bytes takes {large:.2f}s CPU, {large / mid:.1f}× the time of "
                                              f"{times[1][0]} bytes (4× the size)", "class": key, "bytes": ""})
    except Exception as e:  # noqa: BLE001 - the probe needs this class and these fields; without them it is skipped
        ctx.notes.append(f"scaling probe skipped: {type(e).__name__}: {e}")
    replies = driver.run_parallel(lines, jobs=14)
    for (i, data, res), lr in zip(meta, replies):
        if not pyside.same_outcome(res, lr):
            disagreements.append({"op": "dec", "class": cl.keys[i], "bytes": data.hex()[:2000], "python": res[:800], "model": lr[:800]})
    ctx.coverage.update({
        "evaluations": len(cases), "distinct_nontrivial": len(nontrivial),
        "rule": "case = (class, byte string): mutations of a valid encoding (overwrite/insert/delete biased to "
                "prefixes, continuation bits, tagged section), random bytes, appended unknown tags; "
                "non-trivial iff ≥ 2 bytes; distinct by SHA-1",
        "classes_covered": len(idxs), "outcomes_on_code": outcome, "slow_decodes": slow, "scaling_cpu_seconds": scaling,
        "disagreements": len(disagreements), "property_failures_on_code": len(fails),
        "samples": [{"class": cl.keys[i], "bytes": d.hex()[:120], "python": r[:100]} for i, d, r in meta[:: max(1, len(meta) // 6)][:6]],
    })
    seen = set()
    for f in fails:
        k = f["what"].split(" on ")[0]
        if k in seen:
            continue
        seen.add(k)
        ctx.violation(f"{f['class']}: {f['what']}", {**f, "check": "c10"})
    if disagreements and not fails:
        ctx.broken.append(f"correspondence dec: {len(disagreements)}; first: {disagreements[0]}")
        ctx.notes.append({"disagreements": disagreements[:5]})


def replay(doc):
    import importlib
    mod, qn = doc["class"].split(":")
    c = getattr(importlib.import_module(mod), qn)
    print("decode:", codec.decode_real(c, bytes.fromhex(doc["bytes"]))[:400])
    print("claim:", doc.get("what"))
    return 1
