"""C05 — decoding is lossless: re-encoding reproduces the original bytes."""
from __future__ import annotations

import io
import random

import codec
import common
import driver
import gen
import pyside
import values

LEAN_MODULE = "Kio.Props.C05"
THEOREMS = ["Kio.C05.lossless", "Kio.C05.decoded_is_wire", "Kio.C05.idempotent_canonical",
            "Kio.C05.shipped_lossy_witness", "Kio.C05.reencodable", "Kio.C05.shipped_reencodable_conditions"]

NONFINITE = [0x7FF0000000000000, 0xFFF0000000000000, 0x7FF8000000000000, 0x7FF0000000000001,
             0xFFF8000000000123, 0x7FF4000000000000, 1 << 63]


def poke_floats(rng, a, cls):
    """replace some float leaves by -0.0 / inf / NaN payloads (wire domain of float64)"""
    import dataclasses
    if a[0] != "E":
        return a
    out = []
    for f, x in zip(dataclasses.fields(cls), a[1]):
        if x[0] == "F" and rng.random() < 0.5:
            x = ("F", rng.choice(NONFINITE))
        if x[0] == "T" and f.metadata.get("kafka_type") == "timedelta_i64" and rng.random() < 0.4:
            # the whole range the reader returns (up to timedelta.max), also beyond the type's own bounds
            x = ("T", 1000 * rng.choice([86399999913600000, 86399999950000000, 86399999999999999,
                                         86399999913599999, -86399999913600000]))
        out.append(x)
    return ("E", out)


def run(ctx):
    from kio.serial import entity_reader, entity_writer

    rng = random.Random(ctx.seed)
    cl = codec.Classes()
    cl.check_driver()
    thorough = ctx.tier == "thorough"
    idxs = codec.choose_classes(len(cl), rng, None if thorough else 420, ctx.seed + 4, cl)
    per = 16 if thorough else 6
    insts = [(i, poke_floats(rng, a, cl.cls(i)) if cl.cls(i).__type__.name != "nested" else a, o)
             for i, a, o in codec.gen_instances(cl, idxs, per, rng)]
    # values that compare equal but have different encodings (+0.0 / -0.0), back to back in both
    # orders: a value-keyed shortcut anywhere between decode and encode would confuse them
    def set_floats(a, bits):
        if a[0] == "F":
            return ("F", bits)
        if a[0] in ("E", "A"):
            return (a[0], [set_floats(x, bits) for x in a[1]])
        return a
    extra = []
    for i, a, o in insts:
        if " F" in " " + values.render(a) and len(extra) < 60:
            for bits in (0, 1 << 63, 0, 1 << 63):
                extra.append((i, set_floats(a, bits), o))
    insts = insts + extra
    spec = driver.run_parallel([f"spec {i} {values.render(a)}" for i, a, _ in insts], jobs=14)
    fails, disagreements, lines, meta = [], [], [], []
    lossy_prone = 0
    nontrivial = set()
    n = 0
    for (i, a, _), r in zip(insts, spec):
        if not r.startswith("ok"):
            continue
        n += 1
        c = cl.cls(i)
        b = values.unhex_tok(r.split()[1])
        flat = values.render(a)
        if any(t in flat for t in ("D", "T")) or any(f" F{x}" in " " + flat for x in NONFINITE):
            lossy_prone += 1
        buf = io.BytesIO(b)
        try:
            v = entity_reader(c)(buf)
        except Exception as e:  # noqa: BLE001
            fails.append({"what": f"canonical encoding rejected: {type(e).__name__}", "class": cl.keys[i],
                          "bytes": b.hex(), "value": flat[:3000]})
            continue
        if buf.tell() != len(b):
            fails.append({"what": "canonical encoding not consumed exactly", "class": cl.keys[i], "bytes": b.hex()})
        re1 = codec.encode_real(c, v)
        if re1 != f"ok {values.hex_tok(b)}":
            fails.append({"what": "encode(decode(b)) != b", "class": cl.keys[i], "bytes": b.hex(),
                          "value": flat[:3000], "python": re1[:1500]})
        elif re1.startswith("ok"):
            b2 = values.unhex_tok(re1.split()[1])
            v2 = entity_reader(c)(io.BytesIO(b2))
            re2 = codec.encode_real(c, v2)
            if re2 != re1:
                fails.append({"what": "decode-then-encode is not idempotent", "class": cl.keys[i], "bytes": b.hex()})
        lines.append(f"dec {i} {values.hex_tok(b)}")
        meta.append((i, b, f"ok {len(b)} {values.render(values.abstract(v))}"))
        if gen.has_nondefault(c, a) and len(b) >= 2:
            nontrivial.add(codec.case_digest(i, a))
    replies = driver.run_parallel(lines, jobs=14)
    for (i, b, py), lr in zip(meta, replies):
        if not pyside.same_outcome(py, lr):
            disagreements.append({"class": cl.keys[i], "bytes": b.hex()[:2000], "python": py[:500], "model": lr[:500]})
    ctx.coverage.update({
        "evaluations": n, "distinct_nontrivial": len(nontrivial),
        "rule": "case = (class, canonical wire encoding produced by Spec.enc in Lean from a wire-domain value); "
                "non-trivial iff non-default field and ≥ 2 bytes; distinct by SHA-1",
        "classes_covered": len(idxs), "lossy_prone_cases": lossy_prone,
        "disagreements": len(disagreements), "property_failures_on_code": len(fails),
        "samples": [{"class": cl.keys[i], "bytes": b.hex()[:100]} for i, b, _ in meta[:: max(1, len(meta) // 5)][:5]],
    })
    seen = set()
    for f in fails:
        if f["what"] in seen:
            continue
        seen.add(f["what"])
        ctx.violation(f"{f['class']}: {f['what']}", {**f, "check": "c05"})
    if disagreements and not fails:
        ctx.broken.append(f"correspondence dec on canonical encodings: {len(disagreements)}; first: {disagreements[0]}")


def replay(doc):
    import importlib
    from kio.serial import entity_reader
    mod, qn = doc["class"].split(":")
    c = getattr(importlib.import_module(mod), qn)
    b = bytes.fromhex(doc["bytes"])
    try:
        v = entity_reader(c)(io.BytesIO(b))
        print("re-encoded:", codec.encode_real(c, v)[:600])
    except Exception as e:  # noqa: BLE001
        print("decode raised", type(e).__name__, e)
    print("original  : ok", b.hex()[:600])
    return 1
