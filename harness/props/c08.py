"""C08 — header schema and request/response pairing follow the Kafka rules."""
from __future__ import annotations

import random

import codec
import common
import driver

LEAN_MODULE = "Kio.Props.C08"
THEOREMS = ["Kio.C08.rule", "Kio.C08.shipped", "Kio.C08.shipped_request", "Kio.C08.shipped_response"]


def expected_header(cls):
    """Kafka's ApiMessageTypeGenerator rule, written here independently of codegen/header_schema.py"""
    import kio.schema.request_header.v0.header as rq0
    import kio.schema.request_header.v1.header as rq1
    import kio.schema.request_header.v2.header as rq2
    import kio.schema.response_header.v0.header as rs0
    import kio.schema.response_header.v1.header as rs1

    key, ver, flex = int(cls.__api_key__), int(cls.__version__), cls.__flexible__
    if cls.__type__.name == "request":
        if key == 7 and ver == 0:
            return rq0.RequestHeader
        return rq2.RequestHeader if flex else rq1.RequestHeader
    if key == 18:
        return rs0.ResponseHeader
    return rs1.ResponseHeader if flex else rs0.ResponseHeader


def run(ctx):
    from kio import index as kidx

    cl = codec.Classes()
    cl.check_driver()
    fails, disagreements, lines, meta = [], [], [], []
    n = 0
    for i in range(len(cl)):
        c = cl.cls(i)
        t = getattr(getattr(c, "__type__", None), "name", None)
        if t not in ("request", "response"):
            continue
        n += 1
        want = expected_header(c)
        if c.__header_schema__ is not want:
            fails.append({"what": "advertised header schema is not the one Kafka mandates", "class": cl.keys[i],
                          "got": f"{c.__header_schema__.__module__}", "expected": want.__module__})
        hv = int(want.__version__)
        if want.__flexible__ != ((t == "request" and hv == 2) or (t == "response" and hv == 1)):
            fails.append({"what": "header class flexibility is wrong", "class": f"{want.__module__}"})
        try:
            if t == "request":
                other = kidx.load_response_from_request(c)
                back = kidx.load_request_from_response(other)
            else:
                other = kidx.load_request_from_response(c)
                back = kidx.load_response_from_request(other)
        except Exception as e:  # noqa: BLE001
            fails.append({"what": f"pairing lookup raised {type(e).__name__}", "class": cl.keys[i]})
            continue
        if back is not c:
            fails.append({"what": "request/response mapping is not mutually inverse", "class": cl.keys[i],
                          "other": f"{other.__module__}:{other.__qualname__}", "back": f"{back.__module__}:{back.__qualname__}"})
        if int(other.__api_key__) != int(c.__api_key__) or other.__flexible__ != c.__flexible__ or int(other.__version__) != int(c.__version__):
            fails.append({"what": "paired classes differ in key, version or flexibility", "class": cl.keys[i],
                          "other": f"{other.__module__}:{other.__qualname__}"})
        # model: the same lookup through the index model
        lines.append(f"idx_payload {int(c.__api_key__)} {int(c.__version__)} {'response' if t == 'request' else 'request'}")
        meta.append((i, f"{other.__module__}:{other.__qualname__}"))
    replies = driver.run_parallel(lines)
    for (i, okey), r in zip(meta, replies):
        if not r.startswith("ok") or cl.keys[int(r.split()[1])] != okey:
            disagreements.append({"class": cl.keys[i], "python": okey, "model": r})
    ctx.coverage.update({
        "evaluations": n, "distinct_nontrivial": n, "exhaustive": True,
        "rule": "one case per request/response class (all of them); non-trivial = it is a payload class",
        "disagreements": len(disagreements), "property_failures_on_code": len(fails),
        "samples": [cl.keys[m[0]] for m in meta[:5]],
    })
    for f in fails[:3]:
        ctx.violation(f"{f.get('class')}: {f['what']}", {**f, "check": "c08"})
    if disagreements and not fails:
        ctx.broken.append(f"index model disagrees with kio.index: {disagreements[0]}")


def replay(doc):
    import importlib
    mod, qn = doc["class"].split(":") if ":" in doc["class"] else (doc["class"], None)
    m = importlib.import_module(mod)
    if qn:
        c = getattr(m, qn)
        print("header:", c.__header_schema__.__module__, "expected:", expected_header(c).__module__)
    print(doc.get("what"))
    return 1
