"""C14 — the versions of an API form a coherent family."""
from __future__ import annotations

import importlib
import json
import os
import re

import codec
import common
import kioload

LEAN_MODULE = "Kio.Props.C14"
THEOREMS = ["Kio.C14.shipped", "Kio.C14.snake_examples"]


def snake(name: str) -> str:
    """independent statement of the naming convention (regex form)"""
    s = re.sub(r"(?<=[a-z])(?=[A-Z])|(?<=[A-Z0-9])(?=[A-Z][a-z])", "_", name)
    return s.lower()


def run(ctx):
    side = json.load(open(os.path.join(common.CACHE, "gen.json")))
    walked = side["info"]["modules"]
    fails = []
    fam = {}
    for modname in walked:
        _, _, api, ver, kind = modname.split(".")
        v = int(ver[1:])
        mod = importlib.import_module(modname)
        cs = kioload.module_classes(mod)
        tops = [c for c in cs if c.__type__.name == kind]
        if len(tops) != 1:
            fails.append({"what": "module does not have exactly one top-level class of its kind", "module": modname})
            continue
        top = tops[0]
        for c in cs:
            same = (int(c.__version__) == v and c.__flexible__ == top.__flexible__
                    and getattr(c, "__api_key__", None) == getattr(top, "__api_key__", None)
                    and getattr(c, "__header_schema__", None) is getattr(top, "__header_schema__", None))
            if not same or (c is not top and c.__type__.name != "nested"):
                fails.append({"what": "class does not carry its module's version/flexibility/key/header",
                              "module": modname, "class": c.__qualname__})
        pkg = snake(top.__name__)
        pkg = re.sub(r"_(request|response)$", "", pkg)
        if pkg != api:
            fails.append({"what": "module path does not name the API of its top-level class", "module": modname,
                          "class": top.__name__, "derived": pkg})
        fam.setdefault((api, kind), []).append((v, top.__flexible__, getattr(top, "__api_key__", None)))
    keys = {}
    for (api, kind), vs in fam.items():
        vs.sort()
        nums = [v for v, _, _ in vs]
        if nums != list(range(nums[0], nums[0] + len(nums))):
            fails.append({"what": "versions are not contiguous", "api": api, "kind": kind, "versions": nums})
        fl = [f for _, f, _ in vs]
        if any(a and not b for a, b in zip(fl, fl[1:])):
            fails.append({"what": "flexibility reverts", "api": api, "kind": kind})
        ks = {k for _, _, k in vs}
        if len(ks) != 1:
            fails.append({"what": "API key is not constant across versions", "api": api, "kind": kind})
        k = next(iter(ks))
        if k is not None:
            keys.setdefault(int(k), set()).add(api)
        if kind == "request":
            other = sorted(v for v, _, _ in fam.get((api, "response"), []))
            if other != nums:
                fails.append({"what": "requests and responses exist for different versions", "api": api})
    for k, apis in keys.items():
        if len(apis) != 1:
            fails.append({"what": "API key shared by several APIs", "key": k, "apis": sorted(apis)})
    ctx.coverage.update({
        "evaluations": len(walked), "distinct_nontrivial": len(walked), "exhaustive": True,
        "rule": "one case per version module (all walked modules), grouped into (API, type) families; the same "
                "predicate the Lean instance theorem decides, re-evaluated on live class objects",
        "families": len(fam), "property_failures_on_code": len(fails),
        "samples": walked[:3],
    })
    for f in fails[:3]:
        ctx.violation(f["what"], {**f, "check": "c14"})


def replay(doc):
    print(doc)
    return 1
