"""C09 — the dynamic index resolves every known entity and nothing else."""
from __future__ import annotations

import importlib
import json
import os
import random

import codec
import common
import driver

LEAN_MODULE = "Kio.Props.C09"
THEOREMS = ["Kio.C09.shipped", "Kio.C09.resolves_exactly", "Kio.C09.key_bijection", "Kio.C09.unknown_key",
            "Kio.C09.unknown_entity", "Kio.C09.nothing_else", "Kio.C09.only_documented_errors"]
HANDLES_IMPORT_FAILURE = True


def outcome(fn, *args):
    from kio.index import UnknownAPIKey, UnknownEntity
    try:
        r = fn(*args)
    except UnknownAPIKey:
        return "err unknownApiKey", None
    except UnknownEntity:
        return "err unknownEntity", None
    except Exception as e:  # noqa: BLE001
        return f"err internal {type(e).__name__}", None
    return "ok", r


def run(ctx):
    from kio import index as kidx
    from kio.schema.index import api_key_map, schema_name_map
    from kio.static.constants import EntityType

    rng = random.Random(ctx.seed)
    cl = codec.Classes()
    cl.check_driver()
    side = json.load(open(os.path.join(common.CACHE, "gen.json")))
    walked = side["info"]["modules"]
    fails, disagreements = [], []
    lines, meta = [], []
    n = 0
    key_of_cls = {cl.cls(i): i for i in range(len(cl))}
    # every walked module is reachable and resolves to exactly itself
    for modname in walked:
        _, _, api, ver, kind = modname.split(".")
        et = EntityType[kind]
        v = int(ver[1:])
        o, m = outcome(kidx.load_entity_module, api, v, et)
        n += 1
        if o != "ok" or m.__name__ != modname:
            fails.append({"what": "walked module not reachable through the index (or resolves elsewhere)",
                          "module": modname, "python": o if o != "ok" else m.__name__})
            continue
        o, c = outcome(kidx.load_entity_schema, api, v, et)
        if o != "ok" or c.__module__ != modname or c.__type__ is not et:
            fails.append({"what": "index does not resolve to the module's top-level class", "module": modname,
                          "python": o if o != "ok" else f"{c.__module__}:{c.__qualname__}"})
            continue
        lines.append(f"idx_entity {api} {v} {kind}")
        meta.append(("entity", (api, v, kind), f"ok {key_of_cls.get(c, -1)} {api} {v} Kio.EType.{kind}"))
        if kind in ("request", "response"):
            key = int(c.__api_key__)
            fn = kidx.load_request_schema if kind == "request" else kidx.load_response_schema
            o2, c2 = outcome(fn, key, v)
            o3, m3 = outcome(kidx.load_payload_module, key, v, et)
            if o2 != "ok" or c2 is not c or o3 != "ok" or m3.__name__ != modname:
                fails.append({"what": "lookup by API key does not return the same class/module", "module": modname})
            # the twin lookups of the index resolve through the same (key, version) — for the class
            twin = kidx.load_response_from_request if kind == "request" else kidx.load_request_from_response
            other = kidx.load_response_schema if kind == "request" else kidx.load_request_schema
            o4, c4 = outcome(twin, c)
            o5, c5 = outcome(other, key, v)
            if o4 != "ok" or o5 != "ok" or c4 is not c5:
                fails.append({"what": "request/response twin lookup does not resolve to the class the index has for "
                                      "that key and version", "module": modname, "python": o4})
            lines.append(f"idx_payload {key} {v} {kind}")
            meta.append(("payload", (key, v, kind), f"ok {key_of_cls.get(c, -1)}"))
    # every index entry points at a walked module
    walked_set = set(walked)
    for name, vmap in schema_name_map.items():
        for ver, tmap in vmap.items():
            for et, path in tmap.items():
                n += 1
                if path.split(":")[0] not in walked_set:
                    fails.append({"what": "index entry points at a module that does not exist in the package", "entry": path})
    # keys one-to-one with names
    if len(set(api_key_map.values())) != len(api_key_map):
        fails.append({"what": "two API keys map to the same name"})
    # near misses and arbitrary keys / names
    keys = sorted(api_key_map)
    probes = set()
    for k in keys:
        probes.update({k - 1, k + 1})
    probes.update({-1, -2**31, 2**31, 2**63, max(keys) + 1, 10**9})
    probes.update(rng.randint(-10**6, 10**6) for _ in range(200))
    for k in sorted(probes):
        o, _ = outcome(kidx.load_request_schema, k, 0)
        exp = "ok" if k in api_key_map else "err unknownApiKey"
        n += 1
        if k not in api_key_map and o != "err unknownApiKey":
            fails.append({"what": "unknown API key is not reported as UnknownAPIKey", "key": k, "python": o})
        lines.append(f"idx_payload {k} 0 request")
        meta.append(("probe", k, o))
    for name, vmap in schema_name_map.items():
        vs = sorted(vmap)
        for v in {min(vs) - 1, max(vs) + 1, -1, 10**6}:
            for et in EntityType:
                if et.name == "nested" or (v in vmap and et in vmap[v]):
                    continue
                o, _ = outcome(kidx.load_entity_schema, name, v, et)
                n += 1
                if o != "err unknownEntity":
                    fails.append({"what": "unknown (name, version, type) is not reported as UnknownEntity",
                                  "args": [name, v, et.name], "python": o})
                lines.append(f"idx_entity {name} {v} {et.name}")
                meta.append(("near", (name, v, et.name), o))
        for v in vs[:2]:
            for et in EntityType:
                if et.name != "nested" and et not in vmap[v]:
                    o, _ = outcome(kidx.load_entity_schema, name, v, et)
                    n += 1
                    if o != "err unknownEntity":
                        fails.append({"what": "wrong entity type is not reported as UnknownEntity",
                                      "args": [name, v, et.name], "python": o})
                    lines.append(f"idx_entity {name} {v} {et.name}")
                    meta.append(("near", (name, v, et.name), o))
    # lookups by API key with an entity type that is not request/response must not resolve
    for k in keys:
        name = api_key_map[k]
        vs = sorted(schema_name_map[name])
        for v in {vs[0], vs[-1], rng.choice(vs)}:
            for et in EntityType:
                if et in schema_name_map[name][v]:
                    continue
                o, r = outcome(kidx.load_payload_module, k, v, et)
                n += 1
                if o != "err unknownEntity":
                    fails.append({"what": "load_payload_module resolves an entity type the API version does not have",
                                  "args": [k, v, et.name], "python": o if o != "ok" else getattr(r, "__name__", str(r))})
                lines.append(f"idx_payload {k} {v} {et.name}")
                meta.append(("near", (k, v, et.name), o))
    # arguments that only *look* like an entry once formatted into text (the index is keyed by int
    # versions and exact names): after the real modules have been imported by the lookups above, a
    # version given as a string of digits, a name in another case or with blanks, a key given as text
    # must still be unknown — never a module or class found some other way
    for name in rng.sample(sorted(schema_name_map), 12):
        vmap = schema_name_map[name]
        v = rng.choice(sorted(vmap))
        et = next(iter(vmap[v]))
        key = next((k for k, nm_ in api_key_map.items() if nm_ == name), None)
        probes = [(kidx.load_entity_module, (name, str(v), et)), (kidx.load_entity_schema, (name, str(v), et)),
                  (kidx.load_entity_module, (name.upper(), v, et)), (kidx.load_entity_schema, (" " + name, v, et)),
                  (kidx.load_entity_module, (name + " ", v, et)), (kidx.load_entity_module, (name, f"0{v}", et))]
        if key is not None and et.name in ("request", "response"):
            probes += [(kidx.load_payload_module, (key, str(v), et)), (kidx.load_payload_module, (str(key), v, et)),
                       (kidx.load_request_schema, (key, str(v))), (kidx.load_response_schema, (str(key), v))]
        for fn, args in probes:
            o, r = outcome(fn, *args)
            n += 1
            if o == "ok":
                fails.append({"what": f"{fn.__name__}{tuple(a if not hasattr(a, 'name') else a.name for a in args)!r} resolves "
                                      f"although no such entry is in the index", "python": getattr(r, "__name__", str(r))})
            elif o.startswith("err internal"):
                fails.append({"what": f"{fn.__name__} on arguments of the wrong type fails with {o.split()[-1]} instead of the "
                                      f"documented unknown-key / unknown-entity error", "args": [str(a) for a in args]})
    # the process environment must not matter: every index entry through every loader again in child
    # processes run with -O (assert statements stripped), under another time zone and hash seed
    import json as _json
    import subprocess
    child = ("import sys, json\n"
             "sys.path.insert(0, %r)\n"
             "import kio.index as k\n"
             "from kio.schema.index import schema_name_map, api_key_map\n"
             "from kio.static.constants import EntityType\n"
             "inv = {v: key for key, v in api_key_map.items()}\n"
             "out = []\n"
             "def call(fn, *a):\n"
             "    try:\n"
             "        r = fn(*a)\n"
             "        return getattr(r, '__module__', None) + ':' + r.__qualname__ if isinstance(r, type) else r.__name__\n"
             "    except Exception as e:\n"
             "        return 'err ' + type(e).__name__\n"
             "for name, vm in schema_name_map.items():\n"
             "    for v, tm in vm.items():\n"
             "        for et in tm:\n"
             "            out.append([name, v, et.name, call(k.load_entity_module, name, v, et), call(k.load_entity_schema, name, v, et)])\n"
             "            if name in inv and et.name in ('request', 'response'):\n"
             "                out.append([name, v, et.name, call(k.load_payload_module, inv[name], v, et),\n"
             "                            call(k.load_request_schema if et.name == 'request' else k.load_response_schema, inv[name], v)])\n"
             "out.append(['unknown', call(k.load_entity_module, 'no_such_api', 0, EntityType.request), call(k.load_request_schema, 10**6, 0)])\n"
             "print(json.dumps(out))\n") % os.path.join(common.REPO, "src")
    def run_child(env_, flags=()):
        r = subprocess.run([common.PY, *flags, "-c", child], stdout=subprocess.PIPE, stderr=subprocess.PIPE,
                           env={**os.environ, **env_}, timeout=600)
        return r.stdout.decode().strip() or ("ERR " + r.stderr.decode()[-300:])
    base_out = run_child({"TZ": "UTC"})
    for label, env_, flags in (("python -O", {"TZ": "UTC"}, ("-O",)), ("python -OO", {"TZ": "UTC"}, ("-OO",)),
                               ("PYTHONHASHSEED=7, TZ=America/New_York", {"TZ": "America/New_York", "PYTHONHASHSEED": "7"}, ())):
        o = run_child(env_, flags)
        n += 1
        if o != base_out:
            try:
                a0, a1 = _json.loads(base_out), _json.loads(o)
                k_ = next(j for j in range(len(a0)) if a0[j] != a1[j])
                detail = f"{a0[k_]} vs {a1[k_]}"
            except Exception:  # noqa: BLE001
                detail = o[:300]
            fails.append({"what": f"the index loaders give another result under {label}: {detail[:300]}", "python": o[:200]})
    if base_out.startswith("ERR"):
        ctx.notes.append("environment child failed: " + base_out[:200])
    for _ in range(200):
        nm = "".join(rng.choice("abcdefghijklmnopqrstuvwxyz_") for _ in range(rng.randint(1, 12)))
        o, _ = outcome(kidx.load_entity_schema, nm, rng.randint(-3, 20), EntityType.request)
        n += 1
        if nm not in schema_name_map and o != "err unknownEntity":
            fails.append({"what": "unknown name is not reported as UnknownEntity", "args": [nm], "python": o})
    replies = driver.run_parallel(lines)
    for (kind, args, py), r in zip(meta, replies):
        if kind in ("entity", "payload"):
            good = r == py
        else:
            good = (r.split()[0] == py.split()[0]) and (py.startswith("ok") or r.replace("Kio.IndexErr.", "") == py)
        if not good:
            disagreements.append({"kind": kind, "args": args, "python": py, "model": r})
    ctx.coverage.update({
        "evaluations": n, "distinct_nontrivial": len(walked) + len(probes), "exhaustive": True,
        "rule": "every walked module through every load_* function; every index entry; every key ±1; version "
                "min-1/max+1 and every other entity type per API; random ints/strings",
        "walked_modules": len(walked), "model_requests": len(lines),
        "disagreements": len(disagreements), "property_failures_on_code": len(fails),
        "samples": walked[:3],
    })
    for f in fails[:3]:
        ctx.violation(f["what"], {**f, "check": "c09"})
    if disagreements and not fails:
        ctx.broken.append(f"index model disagrees with kio.index: {disagreements[0]}")


def replay(doc):
    print(doc)
    return 1
