"""C03 — the decoder accepts every conforming encoding, including forward-compatible ones."""
from __future__ import annotations

import random

import codec
import common
import driver
import gen
import pyside
import values

LEAN_MODULE = "Kio.Props.C03"
THEOREMS = ["Kio.C03.accepts_conforming", "Kio.C03.foreign_is_conforming", "Kio.C03.mixed_is_conforming", "Kio.C03.conforms_examples",
            "Kio.C03.accepts_foreign", "Kio.C03.shipped_unknown_tag_witness"]

UNKNOWN_TAGS = [5, 17, 99, 127, 128, 300, 16383, 16384, 2**21, 2**35 - 1]


def pattern(rng):
    sd = rng.random() < 0.5
    n = rng.choice([0, 0, 1, 1, 2, 3])
    tags = sorted(rng.sample(UNKNOWN_TAGS, n))
    def size():
        c = rng.random()
        if c < 0.8:
            return rng.choice([0, 1, 2, 5, 127, 128, 130])
        if c < 0.97:
            # sizes around powers of two and their multiples (chunking / buffering boundaries)
            k = rng.choice([255, 256, 257, 1023, 1024, 1025, 4095, 4096, 4097, 5000, 8191, 8192, 8193, 16383, 16384, 16385])
            return k
        return rng.choice([65535, 65536, 65537, 70000, 100001])
    unk = [(t, rng.randbytes(size())) for t in tags]
    return sd, unk


def run(ctx):
    rng = random.Random(ctx.seed)
    cl = codec.Classes()
    cl.check_driver()
    thorough = ctx.tier == "thorough"
    # flexible classes are where the pattern matters; take all of them in thorough, rotate in quick
    idxs = codec.choose_classes(len(cl), rng, None if thorough else 450, ctx.seed + 3, cl)
    per = 12 if thorough else 5
    insts = codec.gen_instances(cl, idxs, per, rng, big_strings=False)
    lines, meta = [], []
    for i, a, _obj in insts:
        sd, unk = pattern(rng)
        u = " ".join(f"{t} {values.hex_tok(p)}" for t, p in unk)
        lines.append(f"foreign {i} {1 if sd else 0} {len(unk)} {u} {values.render(a)}".replace("  ", " "))
        meta.append((i, a, sd, unk))
    # absent tagged fields: a conforming peer omits a tagged field that has its default value, whether
    # the default is explicit or implied by the type (members of a tagged structure keep their own
    # defaults).  The defaults come from the model (`fields`), never from the code under test.
    import dataclasses
    tagged_cls = [i for i in range(len(cl)) if any("tag" in f.metadata for f in dataclasses.fields(cl.cls(i)))]
    fl = driver.run_parallel([f"fields {i}" for i in tagged_cls])
    g2 = gen.Gen(rng, cl.codes, big_strings=False, tzaware_ms=True)
    absent = 0
    for i, r in zip(tagged_cls, fl):
        if not r.startswith("ok"):
            continue
        descr = r.split()[1:]
        c = cl.cls(i)
        implicit = any("tag" in f.metadata and f.default is dataclasses.MISSING for f in dataclasses.fields(c))
        if not (implicit or thorough or rng.random() < 0.25):
            continue
        a = g2.instance(c, budget=5, default_prob=0.3)
        vals = list(a[1])
        okd = True
        for j, d in enumerate(descr):
            dv = d.split(":", 3)[3]
            if dv == "-":
                continue
            if dv.startswith("ERR"):
                okd = False
                break
            vals[j] = values.parse_str(dv.replace(",", " "))
        if not okd:
            continue
        a = ("E", vals)
        lines.append(f"foreign {i} 0 0 {values.render(a)}")
        meta.append((i, a, False, []))
        absent += 1
        # the same with unknown entries around the absent known ones (the tagged section is then not
        # empty, and may hold as many entries as the class knows tags)
        declared = {int(f.metadata["tag"]) for f in dataclasses.fields(c) if "tag" in f.metadata}
        free = [t for t in range(0, 12) if t not in declared]
        for nunk in ((1, 2, len(declared) + 1) if implicit or thorough else (rng.choice([1, 2]),)):
            unk = [(t, rng.randbytes(rng.choice([0, 1, 3]))) for t in free[:nunk]]
            u = " ".join(f"{t} {values.hex_tok(p)}" for t, p in unk)
            lines.append(f"foreign {i} 0 {len(unk)} {u} {values.render(a)}")
            meta.append((i, a, False, unk))
            absent += 1
    # long bytes / records payloads (past the 16-bit mark) in flexible classes, with and without
    # unknown entries around them
    import dataclasses as _dcb
    nbig = 0
    for i, a, obj in list(insts):
        c = cl.cls(i)
        if not c.__flexible__ or nbig >= (40 if thorough else 6):
            continue
        bf = [f for f in _dcb.fields(c) if f.metadata.get("kafka_type") in ("bytes", "records")
              and isinstance(getattr(obj, f.name), (bytes, type(None)))]
        if not bf:
            continue
        f = bf[nbig % len(bf)]
        w = _dcb.replace(obj, **{f.name: bytes([nbig % 251 + 1]) * (32767, 32768, 70001)[nbig % 3]})
        a2 = values.abstract(w)
        sd, unk = pattern(rng)
        u = " ".join(f"{t} {values.hex_tok(p)}" for t, p in unk)
        lines.append(f"foreign {i} {1 if sd else 0} {len(unk)} {u} {values.render(a2)}".replace("  ", " "))
        meta.append((i, a2, sd, unk))
        nbig += 1
    # very many unknown tagged fields (the count of a tagged section is a varint, not a byte): 128+
    # unknown entries at every level, on classes that contain arrays of structures
    import typing as _ty
    def has_struct_array(c):
        hints = _ty.get_type_hints(c)
        for f in dataclasses.fields(c):
            tp = hints[f.name]
            if _ty.get_origin(tp) is tuple and dataclasses.is_dataclass(_ty.get_args(tp)[0]):
                return True
        return False
    many = [(i, a) for i, a, _o in insts if cl.cls(i).__flexible__ and has_struct_array(cl.cls(i)) and " A0" not in " " + values.render(a)]
    for i, a in many[:: max(1, len(many) // (60 if thorough else 10))][: (60 if thorough else 10)]:
        for nunk in (128, 130, 300):
            declared_all = set(range(0, 64))
            unk = [(1000 + 3 * j, bytes([j % 256]) * (j % 3)) for j in range(nunk)]
            u = " ".join(f"{t} {values.hex_tok(p)}" for t, p in unk)
            lines.append(f"foreign {i} {rng.choice([0, 1])} {len(unk)} {u} {values.render(a)}")
            meta.append((i, a, False, unk))
    # per-occurrence choices (`Spec.encMixed`): every structure occurrence decides for itself which
    # defaults to send and which unknown entries to add
    nmixed = 0
    for i, a, _obj in insts:
        if cl.cls(i).__flexible__ and (thorough or rng.random() < 0.5):
            sd = rng.getrandbits(48)
            lines.append(f"foreignmix {i} {sd} {values.render(a)}")
            meta.append((i, a, True, [(-1, b"")]))
            nmixed += 1
    replies = driver.run_parallel(lines, jobs=14)
    fails, disagreements = [], []
    dec_lines, dec_meta = [], []
    kinds = {"encoded": 0, "no-encoding": 0, "bad-pattern": 0}
    pat_kinds = {}
    nontrivial = set()
    for (i, a, sd, unk), r in zip(meta, replies):
        if not r.startswith("ok"):
            kinds["no-encoding" if r == "none" else "bad-pattern"] += 1
            continue
        kinds["encoded"] += 1
        data = values.unhex_tok(r.split()[1])
        tail = b"\x2a" * (len(unk) % 2)
        c = cl.cls(i)
        py = codec.decode_real(c, data + tail)
        want = f"ok {len(data)} {values.render(a)}"
        pk = f"sendDefaults={int(sd)},unknown={len(unk)},flex={int(c.__flexible__)}"
        pat_kinds[pk] = pat_kinds.get(pk, 0) + 1
        if py != want:
            fails.append({"what": "conforming foreign encoding not decoded to the wire values", "class": cl.keys[i],
                          "bytes": (data + tail).hex(), "send_defaults": sd, "unknown": [(t, p.hex()) for t, p in unk],
                          "value": values.render(a)[:3000], "python": py[:800], "expected": want[:800]})
        dec_lines.append(f"dec {i} {values.hex_tok(data + tail)}")
        dec_meta.append((i, data + tail, py))
        if c.__flexible__ and (sd or unk):
            nontrivial.add(codec.case_digest(i, a, str(sd) + str(unk)))
    dr = driver.run_parallel(dec_lines, jobs=14)
    for (i, d, py), lr in zip(dec_meta, dr):
        if not pyside.same_outcome(py, lr):
            disagreements.append({"class": cl.keys[i], "bytes": d.hex()[:2000], "python": py[:500], "model": lr[:500]})
    ctx.coverage.update({
        "evaluations": len(meta), "distinct_nontrivial": len(nontrivial),
        "rule": "case = (class, wire value, presence pattern); bytes produced by Spec.encForeign in Lean, fed to the "
                "real reader; non-trivial iff the class is flexible and the pattern sends defaults or unknown tags",
        "classes_covered": len(idxs), "all_tagged_fields_absent_cases": absent, "encoding_kinds": kinds, "pattern_kinds": pat_kinds,
        "disagreements": len(disagreements), "property_failures_on_code": len(fails),
        "samples": [{"class": cl.keys[i], "send_defaults": sd, "unknown_tags": [t for t, _ in unk]} for i, a, sd, unk in meta[:5]],
    })
    seen = set()
    for f in fails:
        k = f["python"].split()[1] if f["python"].startswith("err") else "value"
        if k in seen:
            continue
        seen.add(k)
        ctx.violation(f"{f['class']}: {f['what']} ({f['python'][:60]})", {**f, "check": "c03"})
    if disagreements and not fails:
        ctx.broken.append(f"correspondence dec on foreign encodings: {len(disagreements)}; first: {disagreements[0]}")


def replay(doc):
    import importlib
    mod, qn = doc["class"].split(":")
    c = getattr(importlib.import_module(mod), qn)
    print("decode:", codec.decode_real(c, bytes.fromhex(doc["bytes"]))[:500])
    print("expected:", doc.get("expected", "")[:500])
    return 1
