"""C15 — entities are immutable, hashable value objects."""
from __future__ import annotations

import copy
import dataclasses
import typing
import pickle
import random

import codec
import common
import recgen
import values

LEAN_MODULE = "Kio.Props.C15"
THEOREMS = ["Kio.C15.immutable", "Kio.C15.mutation_rejected", "Kio.C15.hash_consistent", "Kio.C15.hashable",
            "Kio.C15.copies_equal", "Kio.C15.no_new_attributes", "Kio.C15.shipped_params", "Kio.C15.shipped_record_params"]


def immutable_value(v) -> bool:
    import datetime, enum, uuid
    if v is None or isinstance(v, (int, float, str, bytes, bool, uuid.UUID, datetime.timedelta, datetime.datetime, enum.Enum)):
        return not isinstance(v, (bytearray,))
    if isinstance(v, tuple):
        return all(immutable_value(x) for x in v)
    if dataclasses.is_dataclass(v):
        return all(immutable_value(getattr(v, f.name)) for f in dataclasses.fields(v))
    return False


def exercise(obj, key, rng, fails, ops_seen):
    cls = type(obj)
    before = values.render(values.abstract(obj)) if not key.startswith("kio.records") else repr(obj)
    fs = dataclasses.fields(obj)
    def fail(what):
        fails.append({"what": what, "class": key})
    # assignment / deletion / new attribute
    for f in fs[:3]:
        try:
            setattr(obj, f.name, getattr(obj, f.name))
            fail(f"assignment to field {f.name} accepted")
        except dataclasses.FrozenInstanceError:
            ops_seen.add("setattr")
        except Exception as e:  # noqa: BLE001
            fail(f"assignment raised {type(e).__name__}, not FrozenInstanceError")
        try:
            delattr(obj, f.name)
            fail(f"deletion of field {f.name} accepted")
        except dataclasses.FrozenInstanceError:
            ops_seen.add("delattr")
        except Exception as e:  # noqa: BLE001
            fail(f"deletion raised {type(e).__name__}")
    try:
        obj.some_new_attribute_ = 1
        fail("assignment to a new attribute accepted")
    except (dataclasses.FrozenInstanceError, AttributeError, TypeError):
        ops_seen.add("setnew")
    if hasattr(obj, "__dict__"):
        fail("instance has a per-instance __dict__")
    if not immutable_value(obj):
        fail("a field holds a mutable value")
    # hash / eq
    try:
        h = hash(obj)
        ops_seen.add("hash")
    except Exception as e:  # noqa: BLE001
        fail(f"hash raised {type(e).__name__}")
        h = None
    c1, c2 = copy.copy(obj), copy.deepcopy(obj)
    r = dataclasses.replace(obj)
    try:
        p = pickle.loads(pickle.dumps(obj))
    except Exception as e:  # noqa: BLE001
        fail(f"pickle raised {type(e).__name__}: {e}")
        p = obj
    for nm, o2 in (("copy", c1), ("deepcopy", c2), ("replace", r), ("pickle", p)):
        ops_seen.add(nm)
        if o2 != obj:
            fail(f"{nm} is not equal to the original")
        elif h is not None and hash(o2) != h:
            fail(f"{nm} is equal but hashes differently")
    # equal exactly when all fields are equal: change one field through replace
    if fs:
        f = rng.choice(fs)
        cur = getattr(obj, f.name)
        alt = {int: 1, bool: True}.get(type(cur))
        if isinstance(cur, bool):
            alt = not cur
        elif isinstance(cur, int):
            alt = type(cur)(int(cur) ^ 1) if not hasattr(type(cur), "__members__") else cur
        elif isinstance(cur, str):
            alt = cur + "x"
        elif isinstance(cur, bytes):
            alt = cur + b"x"
        elif isinstance(cur, tuple):
            alt = None if cur else cur
        else:
            alt = cur
        if alt is not None and alt != cur:
            o3 = dataclasses.replace(obj, **{f.name: alt})
            ops_seen.add("replace-change")
            if o3 == obj:
                fail(f"instances differing in field {f.name} compare equal")
            if getattr(obj, f.name) != cur:
                fail("replace changed the original")
    after = values.render(values.abstract(obj)) if not key.startswith("kio.records") else repr(obj)
    if after != before:
        fail("the original changed under the operations")


def run(ctx):
    rng = random.Random(ctx.seed)
    cl = codec.Classes()
    thorough = ctx.tier == "thorough"
    fails = []
    ops_seen = set()
    n = 0
    # dataclass parameters, live
    for i in range(len(cl)):
        c = cl.cls(i)
        p = c.__dataclass_params__
        if not (p.frozen and p.eq and p.slots and not p.unsafe_hash):
            fails.append({"what": f"dataclass parameters are not frozen/eq/slots: {p}", "class": cl.keys[i]})
    insts = codec.gen_instances(cl, list(range(len(cl))), 2 if thorough else 1, rng, big_strings=False)
    def safe_exercise(obj, key):
        try:
            exercise(obj, key, rng, fails, ops_seen)
        except Exception as e:  # noqa: BLE001 - an operation every dataclass value supports raised
            fails.append({"what": f"a value operation raised {type(e).__name__}: {e}", "class": key})

    for i, a, obj in insts:
        safe_exercise(obj, cl.keys[i])
        n += 1
    # instances the *decoder* creates must be value objects too — whatever kind of source they were
    # read from (an in-memory buffer; a raw stream that hands out a few bytes per read: whatever the
    # reader assembles from the pieces must end up immutable)
    import io
    from kio.serial import entity_reader, entity_writer

    class Dribble(io.RawIOBase):
        def __init__(self, data, k, kind):
            self.d, self.p, self.k, self.kind = data, 0, k, kind
        def readable(self):
            return True
        def read(self, n=-1):
            n = len(self.d) - self.p if n is None or n < 0 else n
            chunk = self.d[self.p:self.p + (min(n, self.k) if self.k else n)]
            self.p += len(chunk)
            return bytearray(chunk) if self.kind == "bytearray" else bytes(chunk)

    ndec = 0
    # large payloads too: a reader may assemble a long bytes field from pieces
    big = []
    for i, a, obj in insts:
        c = cl.cls(i)
        bf = [f for f in dataclasses.fields(c) if f.metadata.get("kafka_type") in ("bytes", "records")
              and typing.get_origin(typing.get_type_hints(c)[f.name]) is not tuple]
        if bf and len(big) < (200 if thorough else 24):
            f = bf[len(big) % len(bf)]
            n_ = [65537, 2**17 + 5, 2**20 + 3][len(big) % 3]
            try:
                big.append((i, a, dataclasses.replace(obj, **{f.name: bytes(n_)})))
            except Exception:  # noqa: BLE001
                pass
    for i, a, obj in insts[:: (1 if thorough else 2)] + big:
        c = cl.cls(i)
        try:
            buf = io.BytesIO(); entity_writer(c)(buf, obj); data = buf.getvalue()
        except Exception:  # noqa: BLE001 - unencodable sample (size limits): not this property
            continue
        # (sources honour the `IO[bytes]` contract: read() returns `bytes`)
        for label, src in (("BytesIO", io.BytesIO(data)), ("short reads", Dribble(data, 3, "bytes"))):
            try:
                dec = entity_reader(c)(src)
            except Exception:  # noqa: BLE001 - a reader may refuse such a source; then no instance exists
                continue
            ndec += 1
            ops_seen.add("decoded:" + label)
            # the full set of value operations on what the decoder built (its leaves are made by the
            # readers, not by the caller): copy, deepcopy, replace, pickle, hash, ==
            if ndec % 3 == 0 or thorough:
                safe_exercise(dec, cl.keys[i] + " (decoded)")
            if not immutable_value(dec):
                fails.append({"what": f"an instance decoded from {label} holds a mutable field value",
                              "class": cl.keys[i]})
            else:
                try:
                    if hash(dec) != hash(obj) and dec == obj:
                        fails.append({"what": f"an instance decoded from {label} is equal to the original but hashes differently",
                                      "class": cl.keys[i]})
                except TypeError as e:
                    fails.append({"what": f"an instance decoded from {label} is not hashable: {e}", "class": cl.keys[i]})
    n += ndec
    # the record classes
    from kio.records.schema import NewRecordBatch, Record, RecordBatch, RecordHeader
    for _ in range(20):
        nb = recgen.build_new_batch(recgen.gen_new_batch(rng))
        for o in (nb, nb.records[0]) + ((nb.records[0].headers[0],) if nb.records[0].headers else ()):
            safe_exercise(o, "kio.records.schema:" + type(o).__name__)
            n += 1
    for c in (NewRecordBatch, Record, RecordBatch, RecordHeader):
        p = c.__dataclass_params__
        if not (p.frozen and p.eq and p.slots):
            fails.append({"what": f"record class parameters: {p}", "class": c.__name__})
        for f in dataclasses.fields(c):
            if not (f.compare and f.init) or f.default_factory is not dataclasses.MISSING:
                fails.append({"what": f"record class field {f.name} does not take part in init/comparison", "class": c.__name__})
        hq = getattr(c.__hash__, "__qualname__", "")
        if hq != f"{c.__qualname__}.__hash__":
            fails.append({"what": f"record class {c.__name__} does not use the dataclass-generated __hash__ ({hq})", "class": c.__name__})
    # hashing must not change an instance, and hash/equality must stay consistent when an instance
    # travels to another process (str/bytes hashes are salted per process)
    import os, pickle as _p, subprocess, tempfile
    sample = []
    for _ in range(12):
        nb = recgen.build_new_batch(recgen.gen_new_batch(rng))
        sample += [nb, nb.records[0]]
    sample += [obj for _, _, obj in insts[:: max(1, len(insts) // 40)]]
    blobs = []
    for o in sample:
        before = _p.dumps(o)
        hash(o)
        after = _p.dumps(o)
        n += 1
        if before != after:
            fails.append({"what": "hashing an instance changes its state (pickle differs before/after hash())",
                          "class": type(o).__module__ + ":" + type(o).__qualname__})
        blobs.append(after)
    with tempfile.NamedTemporaryFile(dir=common.CACHE, suffix=".pkl", delete=False) as fh:
        _p.dump(blobs, fh)
        path = fh.name
    child = ("import sys, pickle, dataclasses\n"
             "sys.path.insert(0, %r)\n"
             "bad = []\n"
             "for b in pickle.load(open(sys.argv[1], 'rb')):\n"
             "    o = pickle.loads(b)\n"
             "    fresh = type(o)(**{f.name: getattr(o, f.name) for f in dataclasses.fields(o) if f.init})\n"
             "    if o != fresh or hash(o) != hash(fresh):\n"
             "        bad.append(type(o).__module__ + ':' + type(o).__qualname__)\n"
             "print('BAD ' + ','.join(sorted(set(bad))) if bad else 'OK')\n") % os.path.join(common.REPO, "src")
    for seed_env in ("1", "2"):
        r = subprocess.run([common.PY, "-c", child, path], stdout=subprocess.PIPE, stderr=subprocess.PIPE,
                           env={**os.environ, "PYTHONHASHSEED": seed_env}, timeout=300)
        out = r.stdout.decode().strip()
        ops_seen.add("pickle-to-other-process")
        if not out.startswith("OK"):
            fails.append({"what": "an unpickled instance in another process is not equal to / does not hash like an equal fresh instance",
                          "class": out[:300] or r.stderr.decode()[-300:]})
    os.unlink(path)
    ctx.coverage.update({
        "evaluations": n, "distinct_nontrivial": n,
        "rule": "one generated instance per shipped class (two in thorough) plus record classes; each put through "
                "setattr/delattr/new attribute/hash/==/copy/deepcopy/replace/pickle; non-trivial = every instance",
        "operations_seen": sorted(ops_seen), "property_failures_on_code": len(fails),
        "samples": [cl.keys[insts[0][0]]],
    })
    seen = set()
    for f in fails:
        if f["what"] in seen:
            continue
        seen.add(f["what"])
        ctx.violation(f"{f['class']}: {f['what']}", {**f, "check": "c15"})


def replay(doc):
    print(doc)
    return 1
