"""C04 — the shipped schema is exactly what the generator derives from the pinned definitions."""
from __future__ import annotations

import glob
import importlib
import json
import os

import common
import driver
import gendefs
import kioload

LEAN_MODULE = "Kio.Props.C04"
THEOREMS = ["Kio.C04.gen_pinned_eq_shipped", "Kio.C04.shards_cover", "Kio.C04.all_defs_generated",
            "Kio.C04.api_table", "Kio.C04.error_codes"]
HANDLES_IMPORT_FAILURE = True
EXTRA_TRUSTED = ["pins/definitions/*.json are reconstructed from the pristine tree (upstream JSON is not available offline); "
                 "fidelity to upstream is established only through the independent API table pin"]


def pinned_defs():
    return [json.load(open(f)) for f in sorted(glob.glob(os.path.join(common.VERIF, "pins", "definitions", "*.json")))]


def run(ctx):
    fails, disagreements = [], []
    defs = pinned_defs()
    # (1) the real generator on the pinned definitions, in a scratch tree outside /repo and /verif
    res = gendefs.run_codegen(defs)
    if res.get("gen_error"):
        fails.append({"what": "the code generator fails on the pinned definitions: " + res["gen_error"][:500]})
    gen_mods = res.get("modules", {})
    for name, err in list(res.get("import_errors", {}).items())[:3]:
        fails.append({"what": f"generated module does not import: {err[:300]}", "module": name})
    # (2) the shipped package, walked
    shipped = {}
    try:
        for name, mod in kioload.walk_schema_modules():
            shipped[name] = gendefs.render_module(mod)
    except Exception as e:  # noqa: BLE001
        fails.append({"what": f"a shipped schema module is not importable: {type(e).__name__}: {e}"})
    n = 0
    for name in sorted(set(gen_mods) | set(shipped)):
        n += 1
        a, b = gen_mods.get(name), shipped.get(name)
        if a is None:
            fails.append({"what": "shipped module is not produced by the generator from the pinned definitions", "module": name})
        elif b is None:
            fails.append({"what": "generator produces a module that is not shipped", "module": name})
        elif a != b:
            ca, cb = a.split(" ;; "), b.split(" ;; ")
            diff = next(((x, y) for x, y in zip(ca, cb) if x != y), (f"{len(ca)} classes", f"{len(cb)} classes"))
            fd = next(((p, q) for p, q in zip(diff[0].split(" "), diff[1].split(" ")) if p != q), diff)
            fails.append({"what": "shipped class differs from what the generator derives", "module": name,
                          "generated": fd[0][:400], "shipped": fd[1][:400]})
    # (3) the index the generator derives vs the shipped index
    try:
        from kio.schema.index import api_key_map, schema_name_map
        gi = res.get("index") or {}
        sk = {str(int(k)): v for k, v in api_key_map.items()}
        sn = {nm: {str(v): {t.name: p for t, p in tm.items()} for v, tm in vm.items()} for nm, vm in schema_name_map.items()}
        if gi.get("keys") != sk:
            fails.append({"what": "shipped api_key_map differs from the generated one"})
        if gi.get("names") != sn:
            bad = next((k for k in set(sn) | set(gi.get("names", {})) if sn.get(k) != gi.get("names", {}).get(k)), None)
            fails.append({"what": "shipped schema_name_map differs from the generated one", "api": bad})
    except Exception as e:  # noqa: BLE001
        fails.append({"what": f"shipped index not importable: {type(e).__name__}"})
    # (4) error codes against the pin (value, name, retriable)
    try:
        from kio.schema.errors import ErrorCode
        pin = json.load(open(os.path.join(common.VERIF, "pins", "error_codes.json")))
        cur = [[int(m.value), m.name, bool(m.retriable)] for m in ErrorCode]
        if sorted(cur) != sorted(pin):
            d = [x for x in cur if x not in pin] + [x for x in pin if x not in cur]
            fails.append({"what": "error-code table differs from the pin", "entries": d[:4]})
    except Exception as e:  # noqa: BLE001
        fails.append({"what": f"error codes not importable: {type(e).__name__}"})
    # (5) correspondence: the Lean generator model vs the real generator on the pinned definitions
    lines = ["gen all " + " ".join(gendefs.def_tokens(d)) for d in defs]
    rep = driver.run_parallel(lines)
    for d, r in zip(defs, rep):
        if not r.startswith("ok"):
            disagreements.append({"definition": d["name"], "model": r[:200]})
            continue
        parts = r.split(" ## ")
        pkg = parts[0].split()[1]
        for part in parts[1:]:
            v, st, *rest = part.split(" ", 2)
            name = f"kio.schema.{pkg}.{v}.{d['type']}"
            got = rest[0] if rest else ""
            if st != "ok" or got != gen_mods.get(name):
                disagreements.append({"definition": d["name"], "module": name, "model": (st + " " + got)[:300],
                                      "codegen": (gen_mods.get(name) or "<none>")[:300]})
    ctx.coverage.update({
        "evaluations": n, "distinct_nontrivial": n, "exhaustive": True,
        "rule": "one case per version module of the 186 pinned definitions: the real generator (scratch tree) vs "
                "the shipped package, class by class and field by field; plus index, error codes and the model",
        "definitions": len(defs), "generated_modules": len(gen_mods), "shipped_modules": len(shipped),
        "disagreements": len(disagreements), "property_failures_on_code": len(fails),
        "samples": sorted(shipped)[:3],
    })
    for f in fails[:3]:
        ctx.violation(f["what"] + (" [" + f["module"] + "]" if "module" in f else ""), {**f, "check": "c04"})
    if disagreements and not fails:
        ctx.broken.append(f"generator model disagrees with codegen on the pinned definitions: {disagreements[0]}")


def replay(doc):
    print(doc)
    return 1
