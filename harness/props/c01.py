"""C01 — encode then decode is the identity; exact consumption."""
from __future__ import annotations

import random

import codec
import common
import driver
import gen
import pyside
import values

LEAN_MODULE = "Kio.Props.C01"
THEOREMS = [
    "Kio.C01.roundtrip", "Kio.C01.buildable", "Kio.C01.shipped_coherent", "Kio.C01.shipped",
    "Kio.C01.prim_roundtrip", "Kio.C01.float_exact",
    "Kio.C01.roundtrip_eq", "Kio.C01.roundtrip_canon", "Kio.C01.negative_zero_witness",
]


def run(ctx):
    rng = random.Random(ctx.seed)
    cl = codec.Classes()
    cl.check_driver()
    thorough = ctx.tier == "thorough"
    idxs = codec.choose_classes(len(cl), rng, None if thorough else 420, ctx.seed, cl)
    per = 24 if thorough else 6
    insts = codec.gen_instances(cl, idxs, per, rng)
    # very long arrays (past the 16-bit mark): one non-flexible and one flexible class with an array of
    # fixed-width integers, 32767 / 32768 / 40000 elements
    import dataclasses as _dc
    import os, sys
    sys.path.insert(0, os.path.dirname(os.path.abspath(__file__)))
    from c07 import widen_arrays, widen_struct_arrays
    # arrays of 127 / 128 / 300 structures (the element count crosses the one-byte varint)
    nw = 0
    for i, a, obj in list(insts):
        if nw >= (40 if thorough else 8):
            break
        for nlen in (127, 128, 300):
            w = widen_struct_arrays(obj, nlen)
            if w is not obj:
                insts.append((i, values.abstract(w), w))
                nw += 1
    done = set()
    for i, a, obj in list(insts):
        c = cl.cls(i)
        key = bool(c.__flexible__)
        if key in done or not any(isinstance(getattr(obj, f.name), tuple) and f.metadata.get("kafka_type") in ("int32", "int64", "int16")
                                  for f in _dc.fields(c)):
            continue
        done.add(key)
        for nlen in ((32767, 32768) if not key else (32768,)):
            w = widen_arrays(obj, nlen)
            insts.append((i, values.abstract(w), w))
        if len(done) == 2:
            break
    tails = [b"", b"\x00", bytes(rng.getrandbits(8) for _ in range(5))]
    env_fails = codec.env_variants_check(cl, [(i, a) for i, a, _ in insts[:: max(1, len(insts) // (600 if thorough else 150))]])
    lines, meta = [], []
    fails, disagreements = [], []
    nontrivial = set()
    for n, (i, a, obj) in enumerate(insts):
        c = cl.cls(i)
        enc = codec.encode_real(c, obj)
        tail = tails[n % 3]
        lines.append(f"enc {i} {values.render(a)}")
        meta.append(("enc", i, a, enc, tail))
        if not enc.startswith("ok"):
            continue      # not encodable (e.g. over-long legacy string): outside C01
        data = values.unhex_tok(enc.split()[1])
        back = codec.decode_real(c, data + tail)
        # the property itself, on the real code
        want = f"ok {len(data)} {values.render(a)}"
        if back != want:
            # equal instance (Python ==) is what the property demands
            ok = False
            if back.startswith("ok") and int(back.split()[1]) == len(data):
                from kio.serial import entity_reader
                import io
                ok = entity_reader(c)(io.BytesIO(data + tail)) == obj
            if not ok:
                fails.append({"class": cl.keys[i], "value": values.render(a), "bytes": data.hex(),
                              "tail": tail.hex(), "decoded": back, "expected": want})
        lines.append(f"dec {i} {values.hex_tok(data + tail)}")
        meta.append(("dec", i, a, back, tail))
        if gen.has_nondefault(c, a) and len(data) >= 2:
            nontrivial.add(codec.case_digest(i, a, tail.hex()))
    replies = driver.run_parallel(lines, jobs=14)
    for (kind, i, a, py, tail), lr in zip(meta, replies):
        same = pyside.same_enc_outcome(py, lr) if kind == "enc" else pyside.same_outcome(py, lr)
        if not same:
            disagreements.append({"op": kind, "class": cl.keys[i], "value": values.render(a)[:2000],
                                  "python": py[:2000], "model": lr[:2000]})
    sizes = [len(m[3]) // 2 for m in meta if m[0] == "enc" and m[3].startswith("ok")]
    ctx.coverage.update({
        "evaluations": len(insts),
        "distinct_nontrivial": len(nontrivial),
        "rule": "case = (class, canonical value, tail); non-trivial iff a field is non-default (or the "
                "class has no defaults) and the encoding is ≥ 2 bytes; distinct by SHA-1 of the triple",
        "classes_covered": len(idxs), "environment_variants": [v[0] for v in codec.ENV_VARIANTS], "instances_per_class": per,
        "encodable": len(sizes), "max_encoded_bytes": max(sizes or [0]),
        "mean_encoded_bytes": round(sum(sizes) / max(1, len(sizes)), 1),
        "model_requests": len(lines), "disagreements": len(disagreements),
        "property_failures_on_code": len(fails),
        "samples": [{"class": cl.keys[i], "value": values.render(a)[:300]} for i, a, _ in insts[:: max(1, len(insts) // 6)][:6]],
    })
    for f in fails[:3]:
        ctx.violation(f"{f['class']}: decode(encode(x)+tail) != (x, tail)", {**f, "check": "c01"})
    for f in env_fails[:2]:
        ctx.violation(f"{f['class']}: {f['what']}", {**f, "check": "c01-env"})
    if disagreements and not fails:
        ctx.broken.append(f"correspondence enc/dec: {len(disagreements)} disagreement(s); first: {disagreements[0]}")
        ctx.notes.append({"disagreements": disagreements[:5]})


def replay(doc):
    import importlib
    mod, qn = doc["class"].split(":")
    c = getattr(importlib.import_module(mod), qn)
    a = values.parse_str(doc["value"])
    obj = values.build(a, c)
    enc = codec.encode_real(c, obj)
    print("encode:", enc[:200])
    if enc.startswith("ok"):
        data = values.unhex_tok(enc.split()[1]) + bytes.fromhex(doc.get("tail", ""))
        print("decode:", codec.decode_real(c, data)[:300])
    print("expected:", doc.get("expected", "")[:300])
    return 1
