"""C18 — reading a record batch is faithful and rejects damaged data."""
from __future__ import annotations

import random
import struct

import common
import driver
import pyside
import recgen
import values

LEAN_MODULE = "Kio.Props.C18"
THEOREMS = [
    "Kio.C18.read_spec_partial",
    "Kio.C18.read_spec_floor",
    "Kio.C18.magic",
    "Kio.C18.byte_corruption",
    "Kio.C18.crc_byte_change",
    "Kio.C18.truncation",
    "Kio.C18.timestamp_ms_lost_witness",
    "Kio.C18.current_repaired",
]

# real-broker batches (tests/records/fixtures.py, originally from kafka-python), pinned here
FIXTURES = [
    "00000000000000000000003b00000001020318a2700000000000000000015dff7b063c0000015dff7b063cffffffffffffffffffffffffffff0000000112000000010631323300",
    "0000000000000001000000400000000202c85cbd230000000000010000015dff7cdd6c0000015dff7cde14ffffffffffffffffffffffffffff000000020c0000000100000e00d00202010000",
    "00000000000000030000003b00000002022e0b85b70000000000000000015dff7ce79d0000015dff7ce79dffffffffffffffffffffffffffff0000000112000000010631323300",
    "00000000000000000000004500000000025cd8ef520000000000000000016585b6f3c10000016585b6f3c1ffffffffffffffffffffffffffff000000012600000001066864720208686b6579086876616c",
]

POLY = 0x82F63B78
T = []
for _i in range(256):
    _c = _i
    for _ in range(8):
        _c = (_c >> 1) ^ POLY if _c & 1 else _c >> 1
    T.append(_c)
TOP = {T[i] >> 24: i for i in range(256)}


def state_after(data, s=0xFFFFFFFF):
    for b in data:
        s = T[(s ^ b) & 0xFF] ^ (s >> 8)
    return s


def forge4(s, t):
    """4 bytes taking CRC register s to t (standard reverse-table forging)"""
    idx = [0] * 4
    cur = t
    for k in range(3, -1, -1):
        i = TOP[cur >> 24]
        idx[k] = i
        cur = ((cur ^ T[i]) << 8) & 0xFFFFFFFF
    out, st = [], s
    for k in range(4):
        b = (st & 0xFF) ^ idx[k]
        out.append(b)
        st = T[(st ^ b) & 0xFF] ^ (st >> 8)
    assert st == t
    return bytes(out)


def wire_from_new(a, whole):
    return recgen.derive_wire(a)


def expected_read(wire, data: bytes, floor_seconds: bool):
    """what read_batch must return for the reference encoding `data` of `wire`"""
    f = wire[1]
    batch_length = struct.unpack(">i", data[8:12])[0]
    crc = struct.unpack(">I", data[17:21])[0]
    recs = []
    for r in f[9][1]:
        at, ms, off, k, v, hs = r[1]
        m = ms[1]
        us = (m // 1000 * 1000000) if floor_seconds else m * 1000
        recs.append(("E", [at, ("D", us), off, k, v, hs]))
    return ("E", [f[0], ("I", batch_length), f[1], ("I", crc), f[2], f[3], f[4], f[5], f[6], f[7],
                  f[8], ("A", recs)])


def run(ctx):
    rng = random.Random(ctx.seed)
    thorough = ctx.tier == "thorough"
    nb = 160 if thorough else 36
    fails, known, disagreements = [], [], []
    # reference encodings from the independent spec (Lean), millisecond timestamps
    news = []
    for i in range(nb):
        a = recgen.gen_new_batch(rng, whole_seconds=(i % 3 == 0))
        # keep deltas representable and records small enough for all-flips
        a[1][4] = ("A", a[1][4][1][: rng.choice([1, 2, 3])])
        news.append(a)
    for nh in (64, 128, 130):       # many headers: the header count is a zig-zag varint
        a = recgen.gen_new_batch(rng, whole_seconds=True)
        r0 = list(a[1][4][1][0][1])
        r0[5] = ("A", [("E", [("Y", b"h%d" % j), ("Y", b"v" * (j % 3))]) for j in range(nh)])
        a[1][4] = ("A", [("E", r0)])
        news.append(a)
    for nrec in (49, 50, 51, 130):   # many *minimal* records: 7 bytes each on the wire
        a = recgen.gen_new_batch(rng, whole_seconds=True)
        r0 = list(a[1][4][1][0][1])
        r0[3] = ("N",); r0[4] = ("N",); r0[5] = ("A", []); r0[0] = ("I", 0)
        recs = []
        for j in range(nrec):
            rj = list(r0); rj[2] = ("I", r0[2][1] + j)
            recs.append(("E", rj))
        a[1][4] = ("A", recs)
        news.append(a)
    wires = [recgen.derive_wire(a) for a in news]
    # batches as a broker may return them, not only as write_new_batch produces them: no records at
    # all (a compacted batch), header fields that are not functions of the records
    n_logappend = 0
    for i, w in enumerate(list(wires)):
        if i % 6 == 0:
            f = list(w[1]); f[9] = ("A", []); wires.append(("E", f))
        elif i % 6 == 1:
            f = list(w[1])
            f[3] = ("I", rng.choice([0, 1, 2**31 - 1, -1, rng.randint(0, 10**6)]))
            f[5] = ("I", f[5][1] + rng.choice([0, 1, 1000, 86400000]))
            wires.append(("E", f))
        elif i % 12 == 9 or i % 6 == 4:
            # log-append-time topic: the broker sets attribute bit 3 and overwrites the batch's max
            # timestamp with its own clock, leaving the records' deltas alone — with a producer whose
            # clock runs ahead, the max timestamp is *smaller* than a record's timestamp
            # (i % 12 == 9: whole-second batches, for which the write-back comparison is exact)
            f = list(w[1])
            top_ms = max([f[4][1]] + [r[1][1][1] for r in f[9][1]])
            lowered = max(f[5][1] - rng.choice([1, 999, 1000, 3600000]), top_ms // 1000 + 1)
            if lowered < f[5][1]:
                f[2] = ("I", f[2][1] | 0x08)
                f[5] = ("I", lowered)
                wires.append(("E", f)); n_logappend += 1
        elif i % 6 == 3:
            # (whole-second batches, i % 3 == 0: the write-back comparison below is exact for them)
            # compaction removed the leading record(s): the batch keeps its base offset and base
            # timestamp, so the first surviving record has non-zero deltas
            f = list(w[1])
            k = rng.choice([1, 2, 7, 1000])
            f[0] = ("I", f[0][1] - k)                       # baseOffset below the first record's offset
            f[3] = ("I", f[3][1] + k)                       # lastOffsetDelta relative to the old base
            f[4] = ("I", f[4][1] - 1000 * rng.choice([0, 1, 60]))   # baseTimestamp (whole seconds earlier)
            wires.append(("E", f))
    spec = driver.run_parallel(["specbatch " + values.render(w) for w in wires])
    cases = []      # (label, wire or None, bytes)
    for w, r in zip(wires, spec):
        if r.startswith("ok"):
            cases.append(("ref", w, values.unhex_tok(r.split()[1])))
    for h in FIXTURES:
        cases.append(("fixture", None, bytes.fromhex(h)))
    lines, meta = [], []
    wb_lines, wb_meta = [], []
    evals = 0
    nontrivial = set()
    for label, w, data in cases:
        tail = b"\x07\x07" if len(data) % 2 else b""
        # (a) identity
        py = recgen.read_real(data + tail)
        lines.append("rbatch " + values.hex_tok(data + tail)); meta.append(("id", data, py))
        evals += 1
        if w is not None:
            exact = f"ok {len(data)} {values.render(expected_read(w, data, False))}"
            floored = f"ok {len(data)} {values.render(expected_read(w, data, True))}"
            if py != exact:
                if py == floored:
                    known.append(("C18/I", data))
                else:
                    fails.append({"what": "read_batch does not return the batch as encoded", "bytes": data.hex(),
                                  "python": py[:1500], "expected": exact[:1500]})
            if any(r[1][3][0] != "N" or r[1][4][0] != "N" for r in w[1][9][1]) or not w[1][9][1]:
                nontrivial.add(common.digest(data.hex()))
        # write back what was read
        if py.startswith("ok"):
            from kio.records.readers import read_batch
            import io
            rb = read_batch(io.BytesIO(data))
            back = recgen.write_real(rb)
            # whatever was read (exactly, or with floored timestamps — known finding I), writing it back
            # must give the layout of *that* batch: compared with the model's prepared-batch writer below,
            # so that the known finding cannot hide another difference
            wb_lines.append("wbatch " + py.split(" ", 2)[2]); wb_meta.append((data, back))
            if back != f"ok {data.hex()}":
                # explained by the known finding iff the read timestamps were floored
                if w is not None and py == f"ok {len(data)} {values.render(expected_read(w, data, True))}" and py != f"ok {len(data)} {values.render(expected_read(w, data, False))}":
                    known.append(("C18/I", data))
                elif label == "fixture" and all(r.timestamp.microsecond == 0 for r in rb.records) and back.startswith("ok"):
                    known.append(("C18/I", data))   # broker fixture with non-zero ms: same signature
                else:
                    fails.append({"what": "write_batch(read_batch(b)) != b", "bytes": data.hex(), "python": back[:1500]})
        # (b) wrong magic
        for mg in (0, 1, 3, 255):
            bad = data[:16] + bytes([mg]) + data[17:]
            r = recgen.read_real(bad); evals += 1
            if r.startswith("ok"):
                fails.append({"what": f"magic byte {mg} accepted", "bytes": bad.hex(), "python": r[:600]})
        # (c) every single-bit flip from the CRC field to the end
        limit = len(data) if (thorough or len(data) < 400) else 21 + 200
        for pos in range(17, limit):
            for bit in range(8):
                bad = bytearray(data); bad[pos] ^= 1 << bit
                r = recgen.read_real(bytes(bad)); evals += 1
                if r.startswith("ok"):
                    fails.append({"what": f"bit flip at byte {pos} bit {bit} accepted", "bytes": bytes(bad).hex(), "python": r[:600]})
            if pos % 7 == 0:
                bad = bytearray(data); bad[pos] ^= 1 << (pos % 8)
                lines.append("rbatch " + values.hex_tok(bytes(bad))); meta.append(("flip", bytes(bad), recgen.read_real(bytes(bad))))
        # (d) every truncation
        for k in range(len(data)):
            r = recgen.read_real(data[:k]); evals += 1
            if r.startswith("ok"):
                fails.append({"what": f"truncation to {k} of {len(data)} bytes accepted", "bytes": data[:k].hex(), "python": r[:600]})
            if k % 5 == 0:
                lines.append("rbatch " + values.hex_tok(data[:k])); meta.append(("cut", data[:k], r))
    # (d2) large batches (a megabyte and more; a value that ends in zeros): selected truncation points,
    # in particular cuts that remove only zero bytes — a reader that pads a short body would not notice
    import io as _io
    from kio.records.schema import NewRecordBatch, Record
    from kio.records.writers import write_batch as _wb
    from crc32c import crc32c as _crc
    nbig = 0
    for size, ztail in ((2**20 + 17, 6000), (2**20 * 2 + 3, 70000)) if not thorough else ((2**20 + 17, 6000), (2**20 * 2 + 3, 70000), (2**20 - 9, 5000), (2**22 + 1, 2**20)):
        val = bytes(rng.getrandbits(8) | 1 for _ in range(1000)) * ((size - ztail) // 1000) + bytes(ztail)
        rec = Record(attributes=0, timestamp=values.EPOCH, offset=5, key=b"k", value=val, headers=())
        bb = _io.BytesIO()
        _wb(bb, NewRecordBatch(producer_id=1, producer_epoch=0, partition_leader_epoch=0, base_sequence=0,
                               records=(rec,), attributes=0))
        big = bb.getvalue()
        # (well-formed by an independent look: length field and CRC-32C over bytes 21..)
        if struct.unpack(">i", big[8:12])[0] != len(big) - 12 or struct.unpack(">I", big[17:21])[0] != _crc(big[21:]):
            ctx.notes.append("large reference batch not well-formed by the independent check; skipped")
            continue
        if not recgen.read_real(big).startswith("ok"):
            fails.append({"what": "a well-formed large batch is rejected", "bytes": big[:200].hex(), "python": recgen.read_real(big)[:300]})
            continue
        nbig += 1
        for cut in sorted({len(big) - 1, len(big) - 2, len(big) - 7, len(big) - 4096, len(big) - 5001, len(big) - ztail + 1,
                           len(big) - ztail - 1, len(big) // 2, 2**20, 2**20 - 1, 2**16, 4096, 61, 21, 17, 12, 1, 0}):
            if 0 <= cut < len(big):
                r = recgen.read_real(big[:cut]); evals += 1
                if r.startswith("ok"):
                    fails.append({"what": f"truncation of a {len(big)}-byte batch to {cut} bytes accepted",
                                  "bytes": big[:64].hex(), "size": len(big), "cut": cut, "python": r[:200]})
        for pos in (21, 61, len(big) // 2, len(big) - 1, len(big) - ztail // 2):
            bad = bytearray(big); bad[pos] ^= 0x10
            r = recgen.read_real(bytes(bad)); evals += 1
            if r.startswith("ok"):
                fails.append({"what": f"bit flip at byte {pos} of a {len(big)}-byte batch accepted", "bytes": big[:64].hex(),
                              "size": len(big), "python": r[:200]})
    # (d3) the process environment must not matter: the same reference batches read in child processes
    # whose local time zone is not UTC (set before kio is imported) and with assertions stripped (-O)
    import json as _json
    import os
    import subprocess
    envb = [d for l, w, d in cases if l == "ref"][:12]
    child = ("import sys, json, io\n"
             "sys.path.insert(0, %r)\n"
             "from kio.records.readers import read_batch\n"
             "from kio.records.writers import write_batch\n"
             "out = []\n"
             "for h in json.load(sys.stdin):\n"
             "    try:\n"
             "        b = read_batch(io.BytesIO(bytes.fromhex(h)))\n"
             "        w = io.BytesIO(); write_batch(w, b)\n"
             "        out.append([[int(r.timestamp.timestamp() * 1000) for r in b.records], w.getvalue().hex()])\n"
             "    except Exception as e:\n"
             "        out.append(['err', type(e).__name__])\n"
             "print(json.dumps(out))\n") % os.path.join(common.REPO, "src")
    def run_child(extra_env, flags=()):
        r = subprocess.run([common.PY, *flags, "-c", child], input=_json.dumps([d.hex() for d in envb]).encode(),
                           stdout=subprocess.PIPE, stderr=subprocess.PIPE, env={**os.environ, **extra_env}, timeout=300)
        return r.stdout.decode().strip() or ("ERR " + r.stderr.decode()[-300:])
    base_out = run_child({"TZ": "UTC"})
    for label, env_, flags in (("TZ=America/New_York", {"TZ": "America/New_York"}, ()),
                               ("TZ=IST-5:30", {"TZ": "IST-5:30"}, ()),
                               ("python -O", {"TZ": "UTC"}, ("-O",)),
                               ("PYTHONHASHSEED=7, TZ=Pacific/Auckland", {"TZ": "Pacific/Auckland", "PYTHONHASHSEED": "7"}, ())):
        o = run_child(env_, flags); evals += len(envb)
        if o != base_out:
            fails.append({"what": f"reading (and writing back) a batch gives another result under {label} than under TZ=UTC",
                          "bytes": envb[0].hex() if envb else "", "python": o[:600], "expected": base_out[:600]})
    # (e) CRC-colliding truncation (the case only exact reads catch)
    for _ in range(6 if not thorough else 40):
        val = bytes(rng.getrandbits(8) for _ in range(rng.choice([4, 8, 12]))) + b"\0\0\0\0"
        a = recgen.gen_new_batch(rng, whole_seconds=True)
        rec = a[1][4][1][0]
        rec[1][5] = ("A", [("E", [("Y", b"h"), ("Y", val)])])
        a[1][4] = ("A", [rec])
        w = recgen.write_real(recgen.build_new_batch(a))
        if not w.startswith("ok"):
            continue
        raw = bytearray(values.unhex_tok(w.split()[1]))
        sa = state_after(bytes(raw[21:-4]))
        raw[-4:] = forge4(sa, sa)
        from crc32c import crc32c
        raw[17:21] = struct.pack(">I", crc32c(bytes(raw[21:])))
        full = recgen.read_real(bytes(raw)); evals += 2
        trunc = recgen.read_real(bytes(raw[:-4]))
        lines.append("rbatch " + values.hex_tok(bytes(raw[:-4]))); meta.append(("forged", bytes(raw[:-4]), trunc))
        if not full.startswith("ok"):
            fails.append({"what": "forged full batch rejected (harness construction)", "bytes": bytes(raw).hex(), "python": full[:300]})
        if trunc.startswith("ok"):
            fails.append({"what": "CRC-colliding truncated batch accepted (returns a shortened header value)",
                          "bytes": bytes(raw[:-4]).hex(), "full": bytes(raw).hex(), "python": trunc[:600]})
    for (data, back), lr in zip(wb_meta, driver.run_parallel(wb_lines)):
        if lr.split()[0] in ("ok", "err") and not pyside.same_enc_outcome(back, lr):
            fails.append({"what": "write_batch of the batch read_batch returned differs from the v2 layout of that batch",
                          "bytes": data.hex(), "python": back[:800], "expected": lr[:800]})
    replies = driver.run_parallel(lines, jobs=12)
    for (kind, data, py), lr in zip(meta, replies):
        if not pyside.same_outcome(py, lr):
            disagreements.append({"op": "read_batch/" + kind, "bytes": data.hex()[:3000], "python": py[:800], "model": lr[:800]})
    listed = {f["id"] for f in common.known_findings("C18") if f.get("status") == "open"}
    kn = sorted({k for k, _ in known})
    for k in kn:
        if k in listed:
            n = sum(1 for x, _ in known if x == k)
            ctx.known_finding(k, f"read_record drops the milliseconds of record timestamps ({n} case(s) this run); all other fields exact")
        else:
            fails.append({"what": f"unlisted finding {k}", "bytes": known[0][1].hex()})
    ctx.coverage.update({
        "evaluations": evals, "distinct_nontrivial": len(nontrivial) + len(FIXTURES),
        "log_append_time_batches": n_logappend,
        "rule": "case = (batch, perturbation); batches = reference encodings by the Lean spec + 4 real-broker "
                "fixtures; perturbations = identity, 4 wrong magics, every single-bit flip from byte 17, every cut, "
                "CRC-colliding truncation; non-trivial batch iff ≥1 record with non-null key or value",
        "batches": len(cases), "large_batches": nbig, "model_requests": len(lines), "disagreements": len(disagreements),
        "property_failures_on_code": len(fails), "known_finding_cases": len(known),
        "samples": [{"label": l, "bytes": d.hex()[:200]} for l, _, d in cases[:4]],
    })
    for f in fails[:3]:
        ctx.violation(f["what"], {**f, "check": "c18"})
    if disagreements and not fails:
        ctx.broken.append(f"correspondence read_batch: {len(disagreements)}; first: {disagreements[0]}")


def replay(doc):
    print("read_batch ->", recgen.read_real(bytes.fromhex(doc["bytes"]))[:600])
    print("claim:", doc.get("what"))
    return 1
