"""C16 — the generator translates any well-formed message definition faithfully."""
from __future__ import annotations

import glob
import json
import os
import random

import common
import defgen
import driver
import gendefs

LEAN_MODULE = "Kio.Props.C16"
THEOREMS = ["Kio.C16.fields", "Kio.C16.class_vars", "Kio.C16.classes", "Kio.C16.header_rule",
            "Kio.C16.nullability_partial", "Kio.C16.primarr_nullable_witness", "Kio.C16.version_range",
            "Kio.C16.pinned_agree", "Kio.C16.coherent", "Kio.C16.bytes_follow_spec", "Kio.C16.defaults",
            "Kio.C16.supported_names_distinct", "Kio.C16.pinned_supported", "Kio.C16.resolve_prim_observed", "Kio.C16.generates",
            "Kio.Gen.CounterSucc.module_succeeds_needs_acyclic",
            "Kio.Gen.CounterCoh.module_defaults_needs_membersOk"]
EXTRA_TRUSTED = ["the text-emission and pydantic layers of codegen are modelled at descriptor level only; "
                 "`Supported` is my delimitation of the supported subset"]


def header_defs():
    out = []
    for f in glob.glob(os.path.join(common.VERIF, "pins", "definitions", "*Header.json")):
        out.append(json.load(open(f)))
    return out


def project(rendered_class: str) -> str:
    """live/generated class rendering -> the projection DefSpec speaks about"""
    name, et, ver, flex, key, hdr, fields = rendered_class.split("|", 6)
    out = []
    for f in fields.split(" "):
        if not f:
            continue
        fname, shape, kt, tag, dflt = f.split(":", 4)
        kind, args = shape.split("(", 1) if "(" in shape else (shape, ")")
        args = args[:-1].split(",")
        dd = "STRUCT" if dflt.startswith("E") else dflt
        if kind == "prim":
            out.append(f"{fname}:prim({kt}):{args[1]}:{tag}:{dd}")
        elif kind == "primArr":
            out.append(f"{fname}:primArr({kt}):{args[2]}:{tag}:{dd}")
        elif kind == "ent":
            out.append(f"{fname}:struct({args[0]}):{args[1]}:{tag}:{dd}")
        elif kind == "entArr":
            out.append(f"{fname}:structArr({args[0]}):{args[1]}:{tag}:{dd}")
        else:
            out.append(f"{fname}:bad")
    return f"{name}|{'true' if et != 'nested' else 'false'}|{flex}|{key}|{hdr}|" + " ".join(out)


def known_H(exp: str, got: str) -> bool:
    """the only differences are primitive arrays whose definition says nullable but whose
    annotation is not (finding C16/H)"""
    e, g = exp.split("|"), got.split("|")
    if e[:5] != g[:5]:
        return False
    ef, gf = e[5].split(" "), g[5].split(" ")
    if len(ef) != len(gf):
        return False
    hit = False
    for x, y in zip(ef, gf):
        if x == y:
            continue
        xs, ys = x.split(":"), y.split(":")
        if xs[1].startswith("primArr(") and xs[0] == ys[0] and xs[1] == ys[1] and xs[3:] == ys[3:] and xs[2] == "true" and ys[2] == "false":
            hit = True
        else:
            return False
    return hit


def run(ctx):
    rng = random.Random(ctx.seed)
    thorough = ctx.tier == "thorough"
    nsets, per = (12, 100) if thorough else (1, 40)
    fails, known, disagreements = [], [], []
    incoherent = []
    ninst = [0]
    ncases = 0
    nontrivial = 0
    feats = {}
    hdrs = header_defs()
    supported = {True: 0, False: 0}
    dropped = 0
    # explicit float64 defaults: compared directly with the text of the definition (type, exact value,
    # and the bytes of the all-default instance), the generator model covers zero defaults only
    import struct as _struct
    fres = gendefs.run_codegen(hdrs + defgen.crafted_float_defaults(), seed=ctx.seed)
    nfloat = 0
    if fres.get("gen_error") or fres.get("float_defaults_error"):
        fails.append({"what": "the generator fails on float64 defaults: " + str(fres.get("gen_error") or fres.get("float_defaults_error"))[:400]})
    else:
        got = fres.get("float_defaults", {})
        key = "kio.schema.zc16_float_record.v0.data:Zc16FloatRecord"
        for n, t in defgen.FLOAT_DEFAULT_TEXTS.items():
            nfloat += 1
            g = got.get(f"{key}.{defgen.snake(n)}")
            if g is None or g[0] != "float" or g[1] != float(t).hex():
                fails.append({"what": "generated class does not carry the float64 default the definition states",
                              "field": n, "definition_default": t, "generated": g, "definition": defgen.crafted_float_defaults()[0]})
                break
        want = b"".join(_struct.pack(">d", float(t)) for n, t in list(defgen.FLOAT_DEFAULT_TEXTS.items())[:-1]) + b"\x00"
        if not fails and fres.get("default_bytes", {}).get(key) != want.hex():
            fails.append({"what": "all-default instance of a class with float64 defaults does not encode to the bytes the definition prescribes",
                          "python": fres.get("default_bytes", {}).get(key), "spec": want.hex(), "definition": defgen.crafted_float_defaults()[0]})
    for s in range(-2, nsets):
        if s == -2:
            defs = defgen.crafted_same_name_commons()    # a small set of its own (consecutive files matter)
        elif s == -1:
            defs = defgen.crafted_header_flex()          # a small set of its own (unique API keys per set)
        else:
            defs = defgen.gen_set(rng, per, start_serial=s * per)
        if s == 0:
            defs = defgen.crafted() + defs
        # the property speaks about well-formed definitions: a drawn definition on which the *model* of
        # the generator raises (e.g. a `null` default on a field that is not nullable in every version)
        # is a slip of the definition generator, not a case; it is dropped and counted
        pre = driver.run_parallel(["supported " + " ".join(gendefs.def_tokens(d)) for d in defs])
        keep = [d for d, r in zip(defs, pre) if r.startswith("ok") and all(t.split(":")[2] == "true" for t in r.split()[1:])]
        dropped += len(defs) - len(keep)
        defs = keep
        res = gendefs.run_codegen(hdrs + defs, seed=ctx.seed + s)
        if res.get("gen_error"):
            fails.append({"what": "the generator fails on a supported definition set: " + res["gen_error"][:400],
                          "definitions": [d["name"] for d in defs][:5]})
            continue
        mods = res["modules"]
        for sh in res.get("shadowed", [])[:3]:
            fails.append({"what": "a generated module emits a structure twice (a field is typed with a class the module "
                                  "does not export): " + sh, "module": sh.split(":")[0]})
        toks = [" ".join(gendefs.def_tokens(d)) for d in defs]
        gen_r = driver.run_parallel(["gen all " + t for t in toks])
        spec_r = driver.run_parallel(["defspec all " + t for t in toks])
        chk_r = driver.run_parallel(["gencheck " + t for t in toks])
        for d, sr in zip(defs, driver.run_parallel(["supported " + t for t in toks])):
            # is the definition in the subset the universal theorems speak about (`Gen.Supported`)?
            for part in sr.split()[1:]:
                v, sup, okm, wf, da = part.split(":")
                supported[sup == "true"] += 1
                if sup == "true" and not (okm == "true" and wf == "true" and da == "true"):
                    ctx.broken.append(f"theorems coherent/defaults contradicted in the model on {d['name']} {v}: {part}")
        for d, cr in zip(defs, chk_r):
            for part in cr.split()[1:]:
                v, agrees, wf = part.split(":")
                if agrees != "true":
                    ctx.broken.append(f"statement of C16 fails in the model on {d['name']} {v}")
                if wf != "true":
                    incoherent.append((d["name"], v))
        expected_modules = set()
        for d, gr, sr in zip(defs, gen_r, spec_r):
            fl = json.dumps(d)
            for k in ("nullableVersions", "taggedVersions", "entityType", "default", "ignorable", "commonStructs"):
                if k in fl:
                    feats[k] = feats.get(k, 0) + 1
            if not gr.startswith("ok") or not sr.startswith("ok"):
                disagreements.append({"definition": d["name"], "model": gr[:200]})
                continue
            gparts, sparts = gr.split(" ## "), sr.split(" ## ")
            pkg = gparts[0].split()[1]
            for gp, sp in zip(gparts[1:], sparts[1:]):
                v, st, *rest = gp.split(" ", 2)
                name = f"kio.schema.{pkg}.{v}.{d['type']}"
                expected_modules.add(name)
                ncases += 1
                nfields = sum(len(c.split("|")[-1].split()) for c in (rest[0] if rest else "").split(" ;; "))
                if nfields >= 3 and any(k in fl for k in ("nullableVersions", "taggedVersions", "fields", "default")):
                    nontrivial += 1
                live = mods.get(name)
                ierr = res["import_errors"].get(name)
                # -- property on the code: the generated module exists, imports, and says what the definition states
                if ierr:
                    fails.append({"what": f"generated module does not import: {ierr[:200]}", "module": name, "definition": d})
                    continue
                if live is None:
                    fails.append({"what": "no module generated for a declared version", "module": name, "definition": d})
                    continue
                exp = sp.split(" ", 1)[1] if " " in sp else ""
                ec, lc = exp.split(" ;; "), [project(c) for c in live.split(" ;; ")]
                if len(ec) != len(lc):
                    fails.append({"what": "generated module does not have one class per structure visible in the version",
                                  "module": name, "expected": [c.split("|")[0] for c in ec], "got": [c.split("|")[0] for c in lc], "definition": d})
                else:
                    for e, l in zip(ec, lc):
                        if e != l:
                            if known_H(e, l):
                                known.append(("C16/H", name))
                            else:
                                fd = next(((p, q) for p, q in zip(e.split(" "), l.split(" ")) if p != q), (e[:200], l[:200]))
                                fails.append({"what": "generated class differs from what the definition states",
                                              "module": name, "expected": fd[0], "got": fd[1], "definition": d})
                            break
                # -- correspondence: the model of the generator
                got = rest[0] if rest else ""
                if st != "ok" or got != live:
                    disagreements.append({"definition": d["name"], "module": name, "model": (st + " " + got)[:400], "codegen": live[:400]})
        # instances of the generated classes: usable, round-trip, and the bytes an independent reading prescribes
        by_mod = {}
        for d, t in zip(defs, toks):
            pkg = gen_r[defs.index(d)].split(" ## ")[0].split()[1] if gen_r[defs.index(d)].startswith("ok") else None
            by_mod[(pkg, d["type"])] = (d, t)
        elines, emeta = [], []
        for rec in res.get("instances", []):
            _, _, pkg, ver, kind = rec["module"].split(".")
            dt = by_mod.get((pkg, kind))
            if dt is None:
                continue
            ninst[0] += 1
            if "error" in rec:
                fails.append({"what": f"generated class is not usable: {rec['error'][:200]}", "module": rec["module"], "definition": dt[0]})
                continue
            if not rec.get("roundtrip"):
                fails.append({"what": "instance of a generated class does not round-trip", "module": rec["module"],
                              "value": rec["value"][:1000], "definition": dt[0]})
            n = len(dt[1].split())
            elines.append(f"genenc {ver[1:]} {n} {dt[1]} {rec['value']}")
            emeta.append((rec, dt[0]))
        for (rec, d), r in zip(emeta, driver.run_parallel(elines)):
            if not r.startswith("ok"):
                disagreements.append({"definition": d["name"], "model": r[:200]})
                continue
            _, sp, im = r.split()
            if sp != "none" and sp != (rec["bytes"] or "-"):
                fails.append({"what": "instance of a generated class does not encode to the bytes the definition prescribes",
                              "module": rec["module"], "value": rec["value"][:1000], "python": rec["bytes"][:400], "spec": sp[:400], "definition": d})
            if im != (rec["bytes"] or "-"):
                disagreements.append({"definition": d["name"], "module": rec["module"], "model": im[:300], "codegen+writer": rec["bytes"][:300]})
        # the generated index lists exactly the generated modules
        idx = res.get("index")
        if idx is None:
            fails.append({"what": "index generation failed: " + str(res.get("index_error"))[:200]})
        else:
            listed = {p.split(":")[0] for vm in idx["names"].values() for tm in vm.values() for p in tm.values()}
            gen_listed = {m for m in mods}
            if listed != gen_listed:
                fails.append({"what": "generated index does not list exactly the generated modules",
                              "missing": sorted(gen_listed - listed)[:3], "extra": sorted(listed - gen_listed)[:3]})
            for d in defs:
                if "apiKey" in d and idx["keys"].get(str(d["apiKey"])) is None:
                    fails.append({"what": "API key missing from the generated index", "definition": d["name"]})
            # … and so does the index module as it is written to disk (same maps, every entry non-empty)
            wr = res.get("index_written")
            if wr is not None:
                wl = {p.split(":")[0] for vm in wr["names"].values() for tm in vm.values() for p in tm.values()}
                empty = [(n, v) for n, vm in wr["names"].items() for v, tm in vm.items() if not tm]
                if wl != gen_listed or empty or wr["keys"] != idx["keys"]:
                    fails.append({"what": "the index module as written does not list exactly the generated modules",
                                  "missing": sorted(gen_listed - wl)[:3], "extra": sorted(wl - gen_listed)[:3],
                                  "empty_entries": empty[:3]})
            else:
                ctx.notes.append("index text could not be rebuilt from generate_index's formatting functions: "
                                 + str(res.get("index_written_error"))[:200])
    listed_known = {f["id"] for f in common.known_findings("C16") if f.get("status") == "open"}
    for k in sorted({k for k, _ in known}):
        if k in listed_known:
            ctx.known_finding(k, f"nullableVersions is ignored on primitive arrays ({sum(1 for x, _ in known if x == k)} module(s) this run)")
        else:
            fails.append({"what": f"unlisted finding {k}", "module": known[0][1]})
    ctx.coverage.update({
        "evaluations": ncases, "distinct_nontrivial": nontrivial,
        "rule": "case = (generated definition, version); the real generator is run on the set in a scratch tree, its "
                "modules imported in a subprocess; non-trivial iff ≥ 3 fields and at least one of nullable/tagged/nested/default",
        "drawn_definitions_dropped_as_not_wellformed": dropped, "pairs_in_supported_subset": supported[True], "pairs_outside_supported_subset": supported[False],
        "generated_classes_not_coherent_in_model": len(incoherent), "instances_encoded": ninst[0], "float64_defaults_compared_with_definition_text": nfloat, "definition_sets": nsets, "definitions": nsets * per, "feature_counts": feats,
        "disagreements": len(disagreements), "property_failures_on_code": len(fails), "known_finding_cases": len(known),
        "samples": [],
    })
    seen = set()
    for f in fails:
        k = f["what"].split(":")[0]
        if k in seen:
            continue
        seen.add(k)
        ctx.violation(f["what"] + (" [" + f["module"] + "]" if "module" in f else ""), {**f, "check": "c16"})
    if disagreements and not fails:
        ctx.broken.append(f"generator model disagrees with codegen: {disagreements[0]}")


def replay(doc):
    d = doc.get("definition")
    if isinstance(d, dict):
        res = gendefs.run_codegen(header_defs() + [d])
        print("gen_error:", res.get("gen_error"))
        print("import_errors:", res.get("import_errors"))
        for k, v in res.get("modules", {}).items():
            if "header" not in k:
                print(k, "=>", v[:300])
    print("claim:", doc.get("what"))
    return 1
