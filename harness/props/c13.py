"""C13 — every entity is self-describing and its description is coherent."""
from __future__ import annotations

import dataclasses

import codec
import common
import driver
import values

LEAN_MODULE = "Kio.Props.C13"
THEOREMS = ["Kio.C13.shipped_coherent", "Kio.C13.shipped_defaults", "Kio.C13.derivable", "Kio.C13.class_count", "Kio.C13.dispatch_tables", "Kio.C13.implicit_defaults"]

KIND = {"PrimitiveField": "prim", "PrimitiveTupleField": "primArr", "EntityField": "ent", "EntityTupleField": "entArr"}


def run(ctx):
    from kio.serial import entity_reader, entity_writer
    from kio.serial._implicit_defaults import get_tagged_field_default
    from kio.serial._introspect import classify_field, get_field_tag, is_optional

    codec.snapshot_serial_state()
    cl = codec.Classes()
    cl.check_driver()
    fails, disagreements = [], []
    replies = driver.run_parallel([f"fields {i}" for i in range(len(cl))])
    nfields = 0
    tagged = 0
    for i in range(len(cl)):
        c = cl.cls(i)
        # derivable: a reader and a writer can be built from the description alone
        for nm, mk in (("reader", entity_reader), ("writer", entity_writer)):
            try:
                mk(c)
            except Exception as e:  # noqa: BLE001
                fails.append({"what": f"no {nm} can be derived: {type(e).__name__}: {e}", "class": cl.keys[i]})
        descr = []
        for f in dataclasses.fields(c):
            nfields += 1
            try:
                kind = KIND[type(classify_field(f)).__name__]
            except Exception:  # noqa: BLE001
                kind = "bad"
            try:
                opt = "1" if is_optional(f) else "0"
            except Exception:  # noqa: BLE001
                opt = "E"
            try:
                t = get_field_tag(f)
                tag = "-" if t is None else str(int(t))
            except Exception:  # noqa: BLE001
                t, tag = None, "E"
            d = "-"
            if tag not in ("-", "E"):
                tagged += 1
                try:
                    dv = get_tagged_field_default(f)
                    d = values.render(values.abstract(dv)).replace(" ", ",")
                    if dataclasses.is_dataclass(dv) and type(dv) is not values.leaf_type(f.type):
                        fails.append({"what": f"resolved default of tagged field {f.name} is an instance of "
                                              f"{type(dv).__module__}.{type(dv).__qualname__}, not of the declared class",
                                      "class": cl.keys[i], "field": f.name})
                except Exception as e:  # noqa: BLE001
                    d = "ERR:" + type(e).__name__
                    fails.append({"what": "tagged field has no resolvable default", "class": cl.keys[i], "field": f.name})
            descr.append(f"{kind}:{opt}:{tag}:{d}")
        py = "ok " + " ".join(descr) if descr else "ok "
        if replies[i].strip() != py.strip():
            disagreements.append({"class": cl.keys[i], "python": py[:600], "model": replies[i][:600]})
    # "from its description alone": deriving must not depend on who else is deriving, nor on order.
    # Four threads derive every reader and writer from a cold cache in different orders (a stress
    # run; the systematic schedules are C19's).
    import random
    import sys
    import threading
    codec.reset_serial_state()
    errs = []
    def worker(k):
        order = list(range(len(cl)))
        random.Random(ctx.seed * 7 + k).shuffle(order)
        for i in order:
            for nm, mk in (("reader", entity_reader), ("writer", entity_writer)):
                try:
                    mk(cl.cls(i))
                except Exception as e:  # noqa: BLE001
                    errs.append({"what": f"no {nm} can be derived while other threads derive: {type(e).__name__}: {e}",
                                 "class": cl.keys[i]})
    old = sys.getswitchinterval()
    sys.setswitchinterval(1e-6)
    try:
        ts = [threading.Thread(target=worker, args=(k,)) for k in range(4)]
        for t in ts: t.start()
        for t in ts: t.join()
    finally:
        sys.setswitchinterval(old)
    fails.extend(errs[:3])
    ctx.coverage.update({
        "concurrent_derivations": 4 * 2 * len(cl),
        "evaluations": len(cl) + nfields, "distinct_nontrivial": nfields, "exhaustive": True,
        "rule": "one case per class (reader and writer derivable) and per field (classification, optionality, "
                "tag, tagged default compared with the model); all classes and fields; non-trivial = every field",
        "classes": len(cl), "fields": nfields, "tagged_fields": tagged,
        "disagreements": len(disagreements), "property_failures_on_code": len(fails),
        "samples": [cl.keys[0], replies[0][:200]],
    })
    for f in fails[:3]:
        ctx.violation(f"{f['class']}: {f['what']}", {**f, "check": "c13"})
    if disagreements and not fails:
        ctx.broken.append(f"model of _introspect/_implicit_defaults disagrees with the code: {disagreements[0]}")


def replay(doc):
    print(doc)
    return 1
