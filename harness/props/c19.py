"""C19 — readers and writers are stateless: history, failures and threads do not matter."""
from __future__ import annotations

import io
import os
import random
import sys
import threading

import codec
import common
import driver
import values

LEAN_MODULE = "Kio.Props.C19"
THEOREMS = ["Kio.C19.build_correct", "Kio.C19.nested_correct", "Kio.C19.history_independent",
            "Kio.C19.schedule_independent", "Kio.C19.io_failure", "Kio.C19.inv_store"]
EXTRA_TRUSTED = ["functools.cache lookups/stores are atomic under the GIL; closures capture only immutable plans (modelled)"]

TRACED = ("/kio/serial/", "/kio/_utils")


def clear_caches():
    codec.reset_serial_state()


class FailingSink:
    """raises OSError at its k-th write"""
    def __init__(self, k):
        self.k, self.n, self.chunks = k, 0, []

    def write(self, data):
        if self.n == self.k:
            self.n += 1
            raise OSError("injected write failure")
        self.n += 1
        self.chunks.append(bytes(data))
        return len(data)


class FailingSource:
    """raises OSError at its k-th read"""
    def __init__(self, data, k):
        self.buf, self.k, self.n = io.BytesIO(data), k, 0

    def read(self, n=-1):
        if self.n == self.k:
            self.n += 1
            raise OSError("injected read failure")
        self.n += 1
        return self.buf.read(n)


class Sched:
    """Deterministic scheduler: thread 0 runs until it has executed `k0` traced line events,
    then thread 1 runs `k1` events (or to completion), then they finish one after the other."""

    def __init__(self, switch_points):
        self.switch = switch_points        # list of (thread, after_n_events)
        self.gates = [threading.Semaphore(0), threading.Semaphore(0)]
        self.back = threading.Semaphore(0)
        self.done = [False, False]
        self.steps = [0, 0]
        self.limit = [None, None]

    def tracer(self, tid):
        def local(frame, event, arg):
            if event == "line":
                self.steps[tid] += 1
                if self.limit[tid] is not None and self.steps[tid] >= self.limit[tid]:
                    self.limit[tid] = None
                    self.back.release()
                    self.gates[tid].acquire()
            return local

        def glob(frame, event, arg):
            fn = frame.f_code.co_filename
            if any(t in fn for t in TRACED):
                return local
            return None
        return glob

    def run(self, fns):
        results = [None, None]

        def worker(tid):
            self.gates[tid].acquire()
            sys.settrace(self.tracer(tid))
            try:
                results[tid] = ("ok", fns[tid]())
            except BaseException as e:  # noqa: BLE001
                results[tid] = ("err", type(e).__name__, str(e))
            finally:
                sys.settrace(None)
                self.done[tid] = True
                self.back.release()

        ths = [threading.Thread(target=worker, args=(i,)) for i in range(2)]
        for t in ths:
            t.start()
        plan = list(self.switch)
        while not all(self.done):
            if plan:
                tid, n = plan.pop(0)
                if self.done[tid]:
                    continue
                self.limit[tid] = self.steps[tid] + n if n is not None else None
            else:
                tid = 0 if not self.done[0] else 1
                self.limit[tid] = None
            self.gates[tid].release()
            self.back.acquire()
        for t in ths:
            t.join()
        return results


def run(ctx):
    from kio.serial import entity_reader, entity_writer

    codec.snapshot_serial_state()
    rng = random.Random(ctx.seed)
    cl = codec.Classes()
    thorough = ctx.tier == "thorough"
    fails = []
    evals = 0
    nontrivial = 0
    keyidx = {k: i for i, k in enumerate(cl.keys)}

    def ref_bytes(c, obj):
        clear_caches()
        b = io.BytesIO(); entity_writer(c)(b, obj)
        return b.getvalue()

    # ---------- (1) histories: any order of creating / using readers and writers ------------------
    fams = ["kio.schema.metadata.v12.response:MetadataResponse", "kio.schema.metadata.v12.request:MetadataRequest",
            "kio.schema.fetch.v17.response:FetchResponse", "kio.schema.fetch.v17.request:FetchRequest",
            "kio.schema.produce.v11.response:ProduceResponse", "kio.schema.request_header.v2.header:RequestHeader",
            "kio.schema.api_versions.v4.response:ApiVersionsResponse", "kio.schema.fetch.v17.response:PartitionData"]
    pool = [keyidx[k] for k in fams if k in keyidx] + rng.sample(range(len(cl)), 12)
    insts = codec.gen_instances(cl, pool, 2, rng, big_strings=False)
    # twins: values that compare equal (==, same hash) but are different values with different
    # encodings (+0.0 / -0.0).  "Depends only on that value" must survive any value-keyed shortcut.
    def set_floats(a, bits):
        if a[0] == "F":
            return ("F", bits)
        if a[0] in ("E", "A"):
            return (a[0], [set_floats(x, bits) for x in a[1]])
        return a
    fl = [i for i in range(len(cl)) if any(f.metadata.get("kafka_type") == "float64" for f in __import__("dataclasses").fields(cl.cls(i)))]
    for i, a, obj in codec.gen_instances(cl, fl[:6], 1, rng, big_strings=False):
        for bits in (0, 1 << 63):
            t = set_floats(a, bits)
            insts.append((i, t, values.build(t, cl.cls(i))))
    # … and aware datetimes that differ only in `fold` (PEP 495): equal and hash-equal, one hour apart
    import dataclasses as _dcs
    import datetime as _dt
    try:
        from zoneinfo import ZoneInfo
        ny = ZoneInfo("America/New_York")
        folds = [_dt.datetime(2021, 11, 7, 1, 30, tzinfo=ny, fold=0), _dt.datetime(2021, 11, 7, 1, 30, tzinfo=ny, fold=1)]
        if folds[1].timestamp() - folds[0].timestamp() != 3600:
            folds = []
    except Exception:  # noqa: BLE001 - no tz database: no fold twins
        folds = []

    def map_dt(o, new):
        if _dcs.is_dataclass(o) and not isinstance(o, type):
            return type(o)(**{f.name: map_dt(getattr(o, f.name), new) for f in _dcs.fields(o)})
        if isinstance(o, tuple):
            return tuple(map_dt(x, new) for x in o)
        if isinstance(o, _dt.datetime):
            return new
        return o
    dtc = [i for i in range(len(cl)) if any(f.metadata.get("kafka_type") == "datetime_i64" for f in _dcs.fields(cl.cls(i)))]
    nfold = 0
    for i, a, obj in (codec.gen_instances(cl, dtc[:: max(1, len(dtc) // 4)][:4], 2, rng, big_strings=False) if folds else []):
        if " D" not in " " + values.render(a):
            continue
        for fdt in folds:
            o2 = map_dt(obj, fdt)
            insts.append((i, values.abstract(o2), o2))
        nfold += 1
    refs = {}
    for n, (i, a, obj) in enumerate(insts):
        refs[n] = ref_bytes(cl.cls(i), obj)
    # the reference itself must not depend on the order in which it was computed
    for n in reversed(range(len(insts))):
        i, a, obj = insts[n]
        evals += 1
        if ref_bytes(cl.cls(i), obj) != refs[n]:
            fails.append({"what": "encoding of a value depends on which values were encoded before it",
                          "class": cl.keys[i], "value": values.render(a)[:2000]})
    def same(x, y):
        return values.render(values.abstract(x)) == values.render(values.abstract(y))
    # bytes a *peer* would send for the same values (every tagged field sent explicitly, explicit nulls
    # included — `Spec.encForeign`): decoding them must not depend on history either
    import dataclasses as _dcf
    tagged_n = [n for n, (i, a, o) in enumerate(insts)
                if cl.cls(i).__flexible__ and any("tag" in f.metadata for f in _dcf.fields(cl.cls(i)))]
    extra_cls = [i for i in range(len(cl)) if any("tag" in f.metadata and f.default is None for f in _dcf.fields(cl.cls(i)))]
    for i, a, obj in codec.gen_instances(cl, extra_cls[:: max(1, len(extra_cls) // 6)][:6], 1, rng, big_strings=False)[:12]:
        # tagged nullable fields at None (their default), so that the peer's explicit form is a null
        vals = [("N",) if ("tag" in f.metadata and f.default is None) else x for f, x in zip(_dcf.fields(cl.cls(i)), a[1])]
        a2 = ("E", vals)
        try:
            insts.append((i, a2, values.build(a2, cl.cls(i))))
            refs[len(insts) - 1] = ref_bytes(cl.cls(i), insts[-1][2])
            tagged_n.append(len(insts) - 1)
        except Exception:  # noqa: BLE001
            pass
    fl_lines = [f"foreign {insts[n][0]} 1 0 {values.render(insts[n][1])}" for n in tagged_n]
    foreign = {}
    for n, r in zip(tagged_n, driver.run_parallel(fl_lines) if fl_lines else []):
        if r.startswith("ok"):
            foreign[n] = values.unhex_tok(r.split()[1])
    nh = 120 if thorough else 30
    only_threads = os.environ.get("C19_ONLY_THREADS") == "1"     # (diagnostic switch, see DESIGN §10.4)
    for h in range(0 if only_threads else nh):
        clear_caches()
        ops = []
        for n, (i, a, obj) in enumerate(insts):
            ops += [("mkw", n), ("mkr", n), ("enc", n), ("dec", n), ("enc", n)]
            if n in foreign:
                ops += [("decf", n), ("decf", n)]
        rng.shuffle(ops)
        ops = ops[: rng.randint(10, len(ops))]
        for op, n in ops:
            i, a, obj = insts[n]
            c = cl.cls(i)
            evals += 1
            if op == "mkw":
                entity_writer(c)
            elif op == "mkr":
                entity_reader(c); entity_reader(c, nullable=True)
            elif op == "decf":
                try:
                    v = entity_reader(c)(io.BytesIO(foreign[n]))
                    okf = same(v, obj)
                except Exception as e:  # noqa: BLE001
                    v, okf = repr(e), False
                if not okf:
                    fails.append({"what": "decoding a peer's explicit encoding depends on the history of created/used readers and writers",
                                  "class": cl.keys[i], "result": str(v)[:200],
                                  "history": [(o, cl.keys[insts[m][0]]) for o, m in ops][:40]})
            elif op == "enc":
                b = io.BytesIO(); entity_writer(c)(b, obj)
                if b.getvalue() != refs[n]:
                    fails.append({"what": "encoding depends on the history of created/used readers and writers",
                                  "class": cl.keys[i], "history": [(o, cl.keys[insts[m][0]]) for o, m in ops][:40]})
            else:
                v = entity_reader(c)(io.BytesIO(refs[n]))
                if not same(v, obj):    # (not `!=`: aware datetimes inside a DST fold never compare equal across zones, PEP 495)
                    fails.append({"what": "decoding depends on the history of created/used readers and writers",
                                  "class": cl.keys[i], "history": [(o, cl.keys[insts[m][0]]) for o, m in ops][:40]})
        nontrivial += 1
    # ---------- (2) a stream failure at every position k, then reuse of the same cached callable ---
    for n, (i, a, obj) in enumerate([] if only_threads else insts[: (len(insts) if thorough else 14)]):
        c = cl.cls(i)
        clear_caches()
        w, r = entity_writer(c), entity_reader(c)
        good = refs[n]
        probe = FailingSink(10**9)
        try:
            w(probe, obj)
        except Exception as e:  # noqa: BLE001
            fails.append({"what": f"encoding to a sink that only offers write(b) fails: {type(e).__name__}: {e}",
                          "class": cl.keys[i]})
            continue
        nwrites = probe.n
        for k in range(min(nwrites, 400 if thorough else 80)):
            sink = FailingSink(k)
            evals += 1
            try:
                w(sink, obj)
                fails.append({"what": f"injected write failure at write #{k} was swallowed", "class": cl.keys[i]})
            except OSError:
                pass
            except Exception as e:  # noqa: BLE001
                fails.append({"what": f"write failure surfaced as {type(e).__name__}", "class": cl.keys[i]})
            if b"".join(sink.chunks) != good[: len(b"".join(sink.chunks))]:
                fails.append({"what": "bytes written before the failure are not a prefix of the encoding", "class": cl.keys[i]})
            b = io.BytesIO(); w(b, obj)
            if b.getvalue() != good:
                fails.append({"what": f"encoding after a failed call (write #{k}) differs", "class": cl.keys[i],
                              "value": values.render(a)[:2000], "k": k})
                break
            nontrivial += 1
        src = FailingSource(good, 10**9)
        try:
            r(src)
        except Exception as e:  # noqa: BLE001
            fails.append({"what": f"decoding from a source that only offers read(n) fails: {type(e).__name__}: {e}",
                          "class": cl.keys[i]})
            continue
        nreads = src.n
        for k in range(min(nreads, 400 if thorough else 80)):
            evals += 1
            try:
                r(FailingSource(good, k))
                fails.append({"what": f"injected read failure at read #{k} was swallowed", "class": cl.keys[i]})
            except OSError:
                pass
            except Exception as e:  # noqa: BLE001
                fails.append({"what": f"read failure surfaced as {type(e).__name__}", "class": cl.keys[i]})
            v = r(io.BytesIO(good))
            if not same(v, obj):
                fails.append({"what": f"decoding after a failed call (read #{k}) differs", "class": cl.keys[i], "k": k})
                break
    # ---------- (2b) a *value* that cannot be encoded (fails after part of the message was staged), then reuse
    import dataclasses as _dc
    sys.path.insert(0, os.path.dirname(os.path.abspath(__file__)))
    from c07 import spoil
    multi = [i for i in range(len(cl)) if sum(1 for f in _dc.fields(cl.cls(i)) if "tag" in f.metadata) >= 2]
    for i, a, obj in ([] if only_threads else codec.gen_instances(cl, multi[: (len(multi) if thorough else 12)], 3, rng, big_strings=False)):
        c = cl.cls(i)
        clear_caches()
        w = entity_writer(c)
        b0 = io.BytesIO(); w(b0, obj)
        bad = spoil(obj, rng)
        if bad is None:
            continue
        evals += 1
        try:
            w(io.BytesIO(), bad)
        except Exception:  # noqa: BLE001
            nontrivial += 1
        b1 = io.BytesIO(); w(b1, obj)
        if b1.getvalue() != b0.getvalue():
            fails.append({"what": "encoding after a failed call (unencodable value) differs", "class": cl.keys[i],
                          "value": values.render(a)[:2000]})
    # ---------- (3) threads: cold-cache creation and use under a deterministic scheduler ------------
    scen = []
    def pick(key):
        j = next(n for n, (i, _, _) in enumerate(insts) if cl.keys[i] == key)
        return insts[j], refs[j]
    (i1, a1, o1), b1 = pick("kio.schema.metadata.v12.response:MetadataResponse")
    (i2, a2, o2), b2 = pick("kio.schema.fetch.v17.response:FetchResponse")
    (i3, a3, o3), b3 = pick("kio.schema.fetch.v17.response:PartitionData")
    def enc_job(c, o):
        def job():
            b = io.BytesIO(); entity_writer(c)(b, o); return b.getvalue().hex()
        return job
    def dec_job(c, data):
        def job():
            return values.render(values.abstract(entity_reader(c)(io.BytesIO(data))))
        return job
    scen.append(("same class, two writers", enc_job(cl.cls(i1), o1), enc_job(cl.cls(i1), o1), b1.hex(), b1.hex()))
    # the same class with several tagged fields set, two different values: the writers stage tagged
    # fields in a scratch buffer, which must not be shared between calls
    mt = [n for n, (i, _, _) in enumerate(insts) if cl.keys[i] == "kio.schema.api_versions.v4.response:ApiVersionsResponse"]
    if len(mt) >= 2:
        g = codec.gen_instances(cl, [insts[mt[0]][0]], 6, random.Random(ctx.seed + 99), big_strings=False)
        g = [x for x in g if sum(1 for f, v in zip(_dc.fields(x[2]), x[1][1]) if "tag" in f.metadata and values.abstract(f.default) != v) >= 2][:2]
        if len(g) == 2:
            (ia, aa, oa), (ib, ab, ob) = g
            scen.append(("one multi-tag class, two values", enc_job(cl.cls(ia), oa), enc_job(cl.cls(ib), ob),
                         ref_bytes(cl.cls(ia), oa).hex(), ref_bytes(cl.cls(ib), ob).hex()))
            # … and two readers of that class from cold: whatever a reader resolves lazily on its first
            # use (defaults of absent tagged fields, field tables) must not be visible half-built
            scen.append(("one multi-tag class, two readers", dec_job(cl.cls(ia), ref_bytes(cl.cls(ia), oa)),
                         dec_job(cl.cls(ib), ref_bytes(cl.cls(ib), ob)),
                         values.render(values.abstract(oa)), values.render(values.abstract(ob))))
    scen.append(("nested-sharing classes", enc_job(cl.cls(i2), o2), enc_job(cl.cls(i3), o3), b2.hex(), b3.hex()))
    scen.append(("reader vs writer of one class", dec_job(cl.cls(i2), b2), enc_job(cl.cls(i2), o2),
                 values.render(values.abstract(o2)), b2.hex()))
    scen.append(("two readers, nested-sharing", dec_job(cl.cls(i2), b2), dec_job(cl.cls(i3), b3),
                 values.render(values.abstract(o2)), values.render(values.abstract(o3))))
    # the one class whose fields are resolved by a *special case* (RequestHeader.client_id), created
    # while another class with a client_id-free and a string-bearing layout is being created
    try:
        irh = keyidx["kio.schema.request_header.v2.header:RequestHeader"]
        (_, arh, orh), = codec.gen_instances(cl, [irh], 1, random.Random(ctx.seed + 5), big_strings=False)[:1]
        brh = ref_bytes(cl.cls(irh), orh)
        scen.append(("request header reader vs another class's reader", dec_job(cl.cls(irh), brh), dec_job(cl.cls(i1), b1),
                     values.render(values.abstract(orh)), values.render(values.abstract(o1))))
        scen.append(("another class's reader vs request header reader", dec_job(cl.cls(i1), b1), dec_job(cl.cls(irh), brh),
                     values.render(values.abstract(o1)), values.render(values.abstract(orh))))
        scen.append(("request header writer vs another class's writer", enc_job(cl.cls(irh), orh), enc_job(cl.cls(i1), o1),
                     brh.hex(), b1.hex()))
    except Exception as e:  # noqa: BLE001
        ctx.notes.append(f"request-header scenarios not built: {type(e).__name__}: {e}")
    nsched = 0
    for name, ja, jb, ra, rb in scen:
        clear_caches()
        s = Sched([]); s.run([ja, jb])
        total0, total1 = s.steps
        stride = 1 if thorough else max(1, total0 // 60)
        off = rng.randrange(stride)
        points = list(range(off, total0 + 1, stride))
        # the first *use* after creation at every single line (lazily initialised state is built
        # there): a warm run tells how long a use is, the tail of the cold run is swept densely
        sw = Sched([]); sw.run([ja, jb])
        tail = min(total0, 4 * sw.steps[0] + 40, 700)
        points = sorted(set(points) | set(range(total0 - tail, total0 + 1)))
        for k in points:
            clear_caches()
            res = Sched([(0, k if k > 0 else 1), (1, None)]).run([ja, jb])
            nsched += 1; evals += 1
            if res[0] != ("ok", ra) or res[1] != ("ok", rb):
                fails.append({"what": f"result depends on the thread schedule ({name})", "preempt_after": k,
                              "results": [str(r)[:200] for r in res]})
                break
        # two preemptions at cache boundaries (thorough) or a seeded sample (quick)
        pairs = [(rng.randrange(1, max(2, total0)), rng.randrange(1, max(2, total1))) for _ in range(200 if thorough else 25)]
        # … and a grid: thread 0 stopped at k0, thread 1 run for k1 steps, thread 0 finished, thread 1 finished
        g = 40 if thorough else 14
        pairs += [(max(1, (a * total0) // g + rng.randrange(max(1, total0 // g))), max(1, (b * total1) // g + rng.randrange(max(1, total1 // g))))
                  for a in range(g) for b in range(g)]
        for k0, k1 in pairs:
            clear_caches()
            res = Sched([(0, k0), (1, k1), (0, None), (1, None)]).run([ja, jb])
            nsched += 1; evals += 1
            if res[0] != ("ok", ra) or res[1] != ("ok", rb):
                fails.append({"what": f"result depends on the thread schedule ({name})", "preempt": [k0, k1],
                              "results": [str(r)[:200] for r in res]})
                break
    nontrivial += nsched
    clear_caches()
    ctx.coverage.update({
        "evaluations": evals, "distinct_nontrivial": nontrivial,
        "rule": "histories: shuffled create/use sequences over classes sharing nested types (non-trivial: each "
                "history); failures: OSError injected at every write/read position then reuse (non-trivial: each "
                "position); schedules: every single-preemption point (strided in quick) and sampled two-preemption "
                "schedules of two-thread cold-cache scenarios at source-line granularity, the first use after creation swept at every line (non-trivial: each schedule)",
        "histories": nh, "schedules": nsched, "property_failures_on_code": len(fails),
        "samples": [name for name, *_ in scen],
    })
    seen = set()
    for f in fails:
        if f["what"] in seen:
            continue
        seen.add(f["what"])
        ctx.violation(f["what"], {**f, "check": "c19"})


def replay(doc):
    print(doc)
    return 1
