"""C12 — primitive value types denote exactly their wire domains."""
from __future__ import annotations

import datetime
import io
import random
import struct

import common
import driver
import pyside
import values

LEAN_MODULE = "Kio.Props.C12"
THEOREMS = ["Kio.C12.bounds_eq_spec", "Kio.C12.int_member_iff", "Kio.C12.construct_law", "Kio.C12.f64_member_iff",
            "Kio.C12.td32_member_iff", "Kio.C12.td64_member_iff", "Kio.C12.tzaware_member_iff",
            "Kio.C12.shipped_rejected_milliseconds", "Kio.C12.nesting", "Kio.C12.int_writer_accepts",
            "Kio.C12.int_ranges_are_writer_domains", "Kio.C12.td_writer_accepts", "Kio.C12.tzaware_writer_accepts"]

DOC_RANGES = {  # the documented closed ranges, independent of the source
    "i8": (-2**7, 2**7 - 1), "i16": (-2**15, 2**15 - 1), "i32": (-2**31, 2**31 - 1), "i64": (-2**63, 2**63 - 1),
    "u8": (0, 2**8 - 1), "u16": (0, 2**16 - 1), "u32": (0, 2**32 - 1), "u64": (0, 2**64 - 1),
    "uvarint": (0, 2**35 - 1), "uvarlong": (0, 2**70 - 1), "svarint": (-2**34, 2**34 - 1), "svarlong": (-2**69, 2**69 - 1),
}
WRITERS = {"i8": "int8", "i16": "int16", "i32": "int32", "i64": "int64", "u8": "uint8", "u16": "uint16",
           "u32": "uint32", "u64": "uint64"}
NEST = [("i8", "i16"), ("i16", "i32"), ("i32", "i64"), ("u8", "u16"), ("u16", "u32"), ("u32", "u64")]



class _UnknownOffset(datetime.tzinfo):
    """a tzinfo object that cannot tell its offset"""

    def utcoffset(self, dt):
        return None

    def dst(self, dt):
        return None

    def tzname(self, dt):
        return None


_UNKNOWN_OFFSET = _UnknownOffset()

def grid(lo, hi, rng):
    s = {lo - 2, lo - 1, lo, lo + 1, -1, 0, 1, hi - 1, hi, hi + 1, hi + 2}
    for k in range(0, 72):
        for d in (-1, 0, 1):
            s.add(2**k + d); s.add(-(2**k) + d)
    s.update(rng.randint(lo - 100, hi + 100) for _ in range(60))
    return sorted(s)


def ctor_outcome(T, v):
    try:
        r = T(v)
    except TypeError:
        return "typeError"
    except Exception as e:  # noqa: BLE001
        return "other:" + type(e).__name__
    return "same" if r is v else "changed"


def run(ctx):
    from kio.serial import readers as R, writers as W
    from kio.static import primitive as P

    rng = random.Random(ctx.seed)
    fails, disagreements, lines, meta = [], [], [], []
    n = 0
    EPOCH = values.EPOCH
    UTC = datetime.timezone.utc

    def probe(tname, kind, arg, pyval, expect_member=None):
        nonlocal n
        T = getattr(P, tname)
        n += 1
        try:
            member = isinstance(pyval, T)
        except Exception as e:  # noqa: BLE001  (membership is a total predicate: a non-member yields False)
            fails.append({"what": f"isinstance({kind} {arg}, {tname}) raised {type(e).__name__} instead of answering",
                          "type": tname, "kind": kind, "arg": str(arg)})
            member = False
        c1, c2 = ctor_outcome(T, pyval), ctor_outcome(T.parse, pyval)
        if expect_member is not None and member != expect_member:
            fails.append({"what": f"isinstance({kind} {arg}, {tname}) is {member}, documented domain says {expect_member}",
                          "type": tname, "kind": kind, "arg": str(arg)})
        want = "same" if member else "typeError"
        if c1 != want or c2 != want:
            fails.append({"what": f"constructor of {tname} on {kind} {arg}: {c1}/{c2}, expected {want}",
                          "type": tname, "kind": kind, "arg": str(arg)})
        lines.append(f"isinst {tname} {kind} {arg}")
        meta.append((tname, kind, arg, f"ok {1 if member else 0} Kio.CtorResult.{want}"))
        return member

    # integers around every range limit and across magnitudes; non-matching types
    for tname, (lo, hi) in DOC_RANGES.items():
        for v in grid(lo, hi, rng):
            m = probe(tname, "int", v, v, lo <= v <= hi)
            if m and tname in WRITERS:
                buf = io.BytesIO()
                try:
                    getattr(W, "write_" + WRITERS[tname])(buf, v)
                    back = getattr(R, "read_" + WRITERS[tname])(io.BytesIO(buf.getvalue()))
                    if back != v:
                        fails.append({"what": f"{tname} member {v} does not read back equal", "type": tname, "arg": str(v)})
                except Exception as e:  # noqa: BLE001
                    fails.append({"what": f"{tname} member {v} rejected by its writer: {type(e).__name__}", "type": tname, "arg": str(v)})
        probe(tname, "bool", 1, True, lo <= 1 <= hi)
        probe(tname, "bool", 0, False, lo <= 0 <= hi)
        probe(tname, "float", struct.unpack(">Q", struct.pack(">d", 1.0))[0], 1.0, False)
        probe(tname, "str", 0, "1", False)
        probe(tname, "none", 0, None, False)
    for a, b in NEST:
        for v in grid(*DOC_RANGES[a], rng):
            if isinstance(v, getattr(P, a)) and not isinstance(v, getattr(P, b)):
                fails.append({"what": f"{a} member {v} is not a member of {b}", "type": a, "arg": str(v)})
    # floats: every class
    for bits in [0, 1 << 63, 0x7FF0000000000000, 0xFFF0000000000000, 0x7FF8000000000000, 1, 0x7FEFFFFFFFFFFFFF,
                 0x3FF0000000000000] + [rng.getrandbits(64) for _ in range(100)]:
        f = struct.unpack(">d", struct.pack(">Q", bits))[0]
        fin = (bits >> 52) & 0x7FF != 0x7FF
        m = probe("f64", "float", bits, f, fin)
        if m:
            buf = io.BytesIO(); W.write_float64(buf, f)
            if struct.pack(">d", R.read_float64(io.BytesIO(buf.getvalue()))) != struct.pack(">d", f):
                fails.append({"what": "f64 member does not read back bit-equal", "type": "f64", "arg": str(bits)})
    probe("f64", "int", 1, 1, False)
    probe("f64", "str", 0, "x", False)
    # durations around their limits and at sub-millisecond offsets
    for tname, (lo_ms, hi_ms), wname in (("i32Timedelta", (-2**31, 2**31 - 1), "timedelta_i32"),
                                          ("i64Timedelta", (-86399999913600000, 86399999913599999), "timedelta_i64")):
        lo_us = lo_ms * 1000
        hi_us = hi_ms * 1000 + (999 if tname == "i64Timedelta" else 0)
        cand = set()
        for base in (lo_us, hi_us, 0, 2**53 * 1000, -(2**53) * 1000, (2**53 + 1) * 1000):
            for d in (-1001, -1000, -999, -1, 0, 1, 499, 500, 501, 999, 1000, 1001):
                cand.add(base + d)
        cand.update(rng.randint(lo_us, hi_us) for _ in range(200))
        for us in sorted(cand):
            if not (-86399999913600000000 <= us <= 86399999999999999999):
                continue
            td = datetime.timedelta(microseconds=us)
            m = probe(tname, "td", us, td, lo_us <= us <= hi_us)
            if m:
                buf = io.BytesIO()
                try:
                    getattr(W, "write_" + wname)(buf, td)
                    back = getattr(R, "read_" + wname)(io.BytesIO(buf.getvalue()))
                    diff = abs((back - td) // datetime.timedelta(microseconds=1))
                    if diff > 500 or (us % 1000 == 0 and diff != 0):
                        fails.append({"what": f"{tname} member {us}µs reads back as {back!r} (not the value rounded to ms)",
                                      "type": tname, "arg": str(us)})
                except Exception as e:  # noqa: BLE001
                    fails.append({"what": f"{tname} member {us}µs rejected by its writer: {type(e).__name__}", "type": tname, "arg": str(us)})
        probe(tname, "int", 5, 5, False)
    # timestamps: aware / naive, negative, sub-millisecond, range limits
    MAXUS = 253402300799999000
    cand = {0, 1, 999, 1000, 1001, 999000, 1000000, 1001000, -1, -1000, -1000000, MAXUS, MAXUS + 999, MAXUS - 1000}
    cand.update(rng.randint(0, MAXUS) for _ in range(150))
    cand.update(rng.randint(0, MAXUS // 1000) * 1000 for _ in range(150))
    for us in sorted(cand):
        try:
            dt = EPOCH + datetime.timedelta(microseconds=us)
        except OverflowError:
            continue
        m = probe("TZAware", "dta", us, dt, us >= 0 and us % 1000 == 0)
        probe("TZAwareMicros", "dta", us, dt, us >= 0)
        probe("TZAware", "dtn", us, dt.replace(tzinfo=None), False)
        # a tzinfo that does not know its offset leaves the datetime naive (Python's definition of aware
        # asks for a non-None utcoffset): no instant, hence no member
        probe("TZAware", "dtn", us, dt.replace(tzinfo=_UNKNOWN_OFFSET), False)
        probe("TZAwareMicros", "dtn", us, dt.replace(tzinfo=_UNKNOWN_OFFSET), False)
        if m:
            buf = io.BytesIO()
            try:
                W.write_datetime_i64(buf, dt)
                back = R.read_datetime_i64(io.BytesIO(buf.getvalue()))
                if back != dt:
                    fails.append({"what": f"TZAware member {dt.isoformat()} reads back as {back.isoformat()}", "type": "TZAware", "arg": str(us)})
            except Exception as e:  # noqa: BLE001
                fails.append({"what": f"TZAware member rejected by its writer: {type(e).__name__}", "type": "TZAware", "arg": str(us)})
    # membership is a property of the *instant*: the same candidates (and the hours around the
    # epoch, where wall-clock date and instant disagree) expressed in other zones
    zones = [datetime.timezone(datetime.timedelta(hours=h, minutes=m)) for h, m in
             ((14, 0), (-12, 0), (5, 30), (1, 0), (0, 1), (-1, 0), (0, -1))]
    H = 3600 * 10**6
    near = {s * (k * H + d) for s in (1, -1) for k in (0, 1, 5, 12, 14) for d in (0, 1000, -1000, 59 * 60 * 10**6 + 999000)}
    for us in sorted(near | set(list(sorted(cand))[::12])):
        for z in zones:
            try:
                dt = (EPOCH + datetime.timedelta(microseconds=us)).astimezone(z)
            except OverflowError:
                continue
            probe("TZAware", "dta", us, dt, us >= 0 and us % 1000 == 0)
            probe("TZAwareMicros", "dta", us, dt, us >= 0)
    tz = datetime.timezone(datetime.timedelta(hours=5, minutes=30))
    for us in (0, 1000, 1234567890123000):
        dt = (EPOCH + datetime.timedelta(microseconds=us)).astimezone(tz)
        if not isinstance(dt, P.TZAware):
            fails.append({"what": "aware datetime in another zone rejected", "type": "TZAware", "arg": str(us)})
    probe("TZAware", "int", 0, 0, False)
    probe("Records", "bytes", 0, b"x", True)
    probe("Records", "str", 0, "x", False)
    # values of *subclasses* of int (an IntEnum member, a user's `class Offset(int)`) are integers too:
    # same membership, same constructor behaviour — and an answer at all.  Run in a child process: a
    # membership test that does not return cannot be interrupted from Python.
    import json as _json
    import os
    import subprocess
    child = r"""
import sys, json, enum
sys.path.insert(0, %r)
import kio.static.primitive as P
class Offset(int): pass
class Code(enum.IntEnum):
    a = 0
    b = 300
    c = -5
out = []
for tname, (lo, hi) in json.loads(sys.argv[1]).items():
    T = getattr(P, tname)
    for v in (Offset(0), Offset(1), Offset(lo), Offset(hi), Offset(lo - 1), Offset(hi + 1), Code.a, Code.b, Code.c):
        member = isinstance(v, T)
        try:
            T(v); ctor = "same"
        except TypeError:
            ctor = "typeError"
        except Exception as e:
            ctor = type(e).__name__
        if member != (lo <= int(v) <= hi) or ctor != ("same" if member else "typeError"):
            out.append([tname, type(v).__name__, int(v), member, ctor])
print(json.dumps(out))
""" % os.path.join(common.REPO, "src")
    try:
        r = subprocess.run([common.PY, "-c", child, _json.dumps({k: list(v) for k, v in DOC_RANGES.items()})],
                           stdout=subprocess.PIPE, stderr=subprocess.PIPE, timeout=120)
        n += 9 * len(DOC_RANGES)
        if r.returncode != 0:
            fails.append({"what": "membership/constructor on int-subclass values raised: " + r.stderr.decode()[-300:],
                          "type": "int subclass", "arg": "-"})
        else:
            for tname, vt, v, member, ctor in _json.loads(r.stdout.decode().strip() or "[]")[:5]:
                fails.append({"what": f"isinstance({vt}({v}), {tname}) is {member}, constructor {ctor}: differs from the "
                                      f"documented range for a value of an int subclass", "type": tname, "arg": str(v)})
    except subprocess.TimeoutExpired:
        fails.append({"what": "isinstance / constructor of an integer type does not return within 120 s for a value "
                              "of an int subclass (IntEnum member, class Offset(int))", "type": "int subclass", "arg": "-"})
    replies = driver.run_parallel(lines)
    for (tname, kind, arg, py), r in zip(meta, replies):
        if r != py:
            disagreements.append({"type": tname, "kind": kind, "arg": str(arg), "python": py, "model": r})
    ctx.coverage.update({
        "evaluations": n, "distinct_nontrivial": len({(m[0], m[1], m[2]) for m in meta}),
        "rule": "case = (primitive type, Python value): boundary grids around every limit and power of two, float "
                "classes, durations/timestamps at limits and sub-ms offsets, naive vs aware, bool/float/str/None for "
                "int types; members of writable types are written and read back",
        "disagreements": len(disagreements), "property_failures_on_code": len(fails),
        "samples": [list(m[:3]) for m in meta[:: max(1, len(meta) // 6)][:6]],
    })
    seen = set()
    for f in fails:
        k = f["what"].split(" ")[0] + f.get("type", "")
        if k in seen:
            continue
        seen.add(k)
        ctx.violation(f["what"], {**f, "check": "c12"})
    if disagreements and not fails:
        ctx.broken.append(f"model of kio.static.primitive disagrees with the code: {disagreements[0]}")


def replay(doc):
    print(doc)
    return 1
