"""Canonical value encoding shared with the Lean driver (DESIGN §4.2).

Abstract values are tuples: ('I', int) ('B', bool) ('F', bits) ('S', bytes-utf8) ('Y', bytes)
('U', bytes16) ('T', µs) ('D', µs) ('N',) ('A', [..]) ('E', [..])."""
from __future__ import annotations

import dataclasses
import datetime
import enum
import struct
import types
import typing
import uuid

EPOCH = datetime.datetime(1970, 1, 1, tzinfo=datetime.timezone.utc)
ONE_US = datetime.timedelta(microseconds=1)


def hex_tok(b: bytes) -> str:
    return b.hex() if b else "-"


def unhex_tok(s: str) -> bytes:
    return b"" if s == "-" else bytes.fromhex(s)


def abstract(v):
    """Real Python object -> abstract value (canonicalisation for comparison)."""
    if v is None:
        return ("N",)
    if isinstance(v, bool):
        return ("B", v)
    if isinstance(v, int):
        return ("I", int(v))
    if isinstance(v, float):
        return ("F", struct.unpack(">Q", struct.pack(">d", v))[0])
    if isinstance(v, str):
        return ("S", v.encode("utf-8", "surrogatepass"))
    if isinstance(v, (bytes, bytearray, memoryview)):
        return ("Y", bytes(v))
    if isinstance(v, uuid.UUID):
        return ("U", v.bytes)
    if isinstance(v, datetime.timedelta):
        return ("T", v // ONE_US)
    if isinstance(v, datetime.datetime):
        return ("D", (v - EPOCH) // ONE_US)
    if isinstance(v, (tuple, list)):
        return ("A", [abstract(x) for x in v])
    if dataclasses.is_dataclass(v) and not isinstance(v, type):
        return ("E", [abstract(getattr(v, f.name)) for f in dataclasses.fields(v)])
    raise TypeError(f"cannot canonicalise {type(v)}")


def tokens(a) -> list[str]:
    k = a[0]
    if k == "I":
        return [f"I{a[1]}"]
    if k == "B":
        return ["B1" if a[1] else "B0"]
    if k == "F":
        return [f"F{a[1]}"]
    if k == "S":
        return ["S" + hex_tok(a[1])]
    if k == "Y":
        return ["Y" + hex_tok(a[1])]
    if k == "U":
        return ["U" + hex_tok(a[1])]
    if k == "T":
        return [f"T{a[1]}"]
    if k == "D":
        return [f"D{a[1]}"]
    if k == "N":
        return ["N"]
    if k in ("A", "E"):
        out = [f"{k}{len(a[1])}"]
        for x in a[1]:
            out.extend(tokens(x))
        return out
    raise ValueError(a)


def render(a) -> str:
    return " ".join(tokens(a))


def parse(toks: list[str], pos: int = 0):
    t = toks[pos]
    k, body = t[0], t[1:]
    if k == "I":
        return ("I", int(body)), pos + 1
    if k == "B":
        return ("B", body == "1"), pos + 1
    if k == "F":
        return ("F", int(body)), pos + 1
    if k == "S":
        return ("S", unhex_tok(body)), pos + 1
    if k == "Y":
        return ("Y", unhex_tok(body)), pos + 1
    if k == "U":
        return ("U", unhex_tok(body)), pos + 1
    if k == "T":
        return ("T", int(body)), pos + 1
    if k == "D":
        return ("D", int(body)), pos + 1
    if k == "N":
        return ("N",), pos + 1
    if k in ("A", "E"):
        n = int(body)
        items = []
        pos += 1
        for _ in range(n):
            x, pos = parse(toks, pos)
            items.append(x)
        return (k, items), pos
    raise ValueError(t)


def parse_str(s: str):
    v, pos = parse(s.split())
    return v


def leaf_type(tp):
    """strip `X | None`, `tuple[X, ...]` down to the leaf class (or dataclass)."""
    if typing.get_origin(tp) in (types.UnionType, typing.Union):
        args = [a for a in typing.get_args(tp) if a is not type(None)]
        return leaf_type(args[0])
    if typing.get_origin(tp) is tuple:
        return leaf_type(typing.get_args(tp)[0])
    return tp


def build(a, tp):
    """abstract value -> real Python object of annotation `tp` (typed leaves)."""
    k = a[0]
    if k == "N":
        return None
    if k == "A":
        # element annotation
        inner = tp
        if typing.get_origin(inner) in (types.UnionType, typing.Union):
            inner = [x for x in typing.get_args(inner) if x is not type(None)][0]
        elem = typing.get_args(inner)[0] if typing.get_origin(inner) is tuple else inner
        return tuple(build(x, elem) for x in a[1])
    leaf = leaf_type(tp)
    if k == "E":
        fs = dataclasses.fields(leaf)
        return leaf(**{f.name: build(x, f.type) for f, x in zip(fs, a[1], strict=True)})
    if k == "I":
        if isinstance(leaf, type) and issubclass(leaf, enum.Enum):
            return leaf(a[1])
        return a[1]
    if k == "B":
        return a[1]
    if k == "F":
        return struct.unpack(">d", struct.pack(">Q", a[1]))[0]
    if k == "S":
        return a[1].decode("utf-8", "surrogatepass")
    if k == "Y":
        return a[1]
    if k == "U":
        return uuid.UUID(bytes=a[1])
    if k == "T":
        return datetime.timedelta(microseconds=a[1])
    if k == "D":
        return EPOCH + datetime.timedelta(microseconds=a[1])
    raise ValueError(a)
