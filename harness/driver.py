"""Talk to the Lean model driver (`lake env lean --run Driver.lean`) in batches."""
from __future__ import annotations

import os
import subprocess

VERIF = os.path.dirname(os.path.dirname(os.path.abspath(__file__)))
LEAN_DIR = os.path.join(VERIF, "lean")


class DriverError(RuntimeError):
    pass


def run_batch(lines: list[str], driver: str = "Driver.lean", timeout: int = 3600) -> list[str]:
    """Send all request lines, return all reply lines (same length)."""
    if not lines:
        return []
    data = "\n".join(lines) + "\n"
    p = subprocess.run(
        ["lake", "env", "lean", "--run", driver],
        cwd=LEAN_DIR, input=data.encode(), stdout=subprocess.PIPE, stderr=subprocess.PIPE,
        timeout=timeout,
    )
    out = p.stdout.decode().splitlines()
    if p.returncode != 0 or len(out) != len(lines):
        raise DriverError(
            f"driver failed rc={p.returncode} replies={len(out)}/{len(lines)}: "
            f"{p.stderr.decode()[-2000:]}"
        )
    return out


def run_parallel(lines: list[str], jobs: int = 8, driver: str = "Driver.lean") -> list[str]:
    """Split a big batch over several driver processes (requests must be stateless;
    a leading `cfg` line, if any, is replicated)."""
    from concurrent.futures import ThreadPoolExecutor

    prefix = []
    while lines and lines[0].startswith("cfg "):
        prefix.append(lines[0])
        lines = lines[1:]
    if len(lines) < 2000 or jobs <= 1:
        return [""] * 0 + run_batch(prefix + lines, driver)[len(prefix):]
    chunk = (len(lines) + jobs - 1) // jobs
    parts = [lines[i : i + chunk] for i in range(0, len(lines), chunk)]
    with ThreadPoolExecutor(len(parts)) as ex:
        res = list(ex.map(lambda part: run_batch(prefix + part, driver)[len(prefix):], parts))
    return [r for part in res for r in part]
