"""Type-directed, boundary-biased instance generator over the real dataclasses (DESIGN §4.2 (a)).

Produces *abstract values* (see values.py); `values.build` turns them into real instances."""
from __future__ import annotations

import dataclasses
import random
import types
import typing
import uuid

import values

STR_LENS_COMMON = [0, 1, 1, 2, 3, 5, 8, 13]
STR_LENS_BOUNDARY = [126, 127, 128, 129, 255, 256]
STR_LENS_RARE = [16383, 16384, 32767]
ALPHABETS = ["abcdefghijklmnopqrstuvwxyz-_.0123456789", "éüñß", "€→✓", "𝄞😀", "a\u0000b"]

INT_RANGES = {
    "int8": (-2**7, 2**7 - 1), "int16": (-2**15, 2**15 - 1), "int32": (-2**31, 2**31 - 1),
    "int64": (-2**63, 2**63 - 1), "uint8": (0, 2**8 - 1), "uint16": (0, 2**16 - 1),
    "uint32": (0, 2**32 - 1), "uint64": (0, 2**64 - 1),
}
MAX_TS_MS = 253402300799999
TD64_LO, TD64_HI = -86399999913600000, 86399999913599999


class Gen:
    def __init__(self, rng: random.Random, error_codes, big_strings=True, tzaware_ms=True):
        self.rng = rng
        self.codes = error_codes
        self.big = big_strings
        self.tz_ms = tzaware_ms
        self.budget = 0

    # ---- leaves ---------------------------------------------------------------------
    def int_in(self, lo, hi):
        r = self.rng
        c = r.random()
        if c < 0.35:
            return r.choice([lo, lo + 1, -1, 0, 1, hi - 1, hi, 127, 128, 255, 256, -128, -129,
                             32767, 32768, 2**31 - 1, -2**31, 2**53, 2**53 + 1]) if True else 0
        if c < 0.6:
            return r.randint(max(lo, -1000), min(hi, 1000))
        return r.randint(lo, hi)

    def clamp_int(self, lo, hi):
        v = self.int_in(lo, hi)
        return min(max(v, lo), hi)

    def string_bytes(self):
        r = self.rng
        c = r.random()
        if r.random() < 0.06:
            # text that codecs, `str` methods and line handling treat specially: a leading byte-order
            # mark, Unicode line/paragraph separators, NEL, NUL, a trailing newline or blanks
            return r.choice(["\ufeffclient-1", "\ufeff", "a\u2028b", "\u2029", "x\u0085y", "line\n", " padded ", "\x00", "\r\n",
                             "\ufeff\ufeff", "tab\t"]).encode()
        if c < 0.8:
            n = r.choice(STR_LENS_COMMON)
        elif c < 0.97 or not self.big:
            n = r.choice(STR_LENS_BOUNDARY)
        else:
            n = r.choice(STR_LENS_RARE)
        alpha = r.choice(ALPHABETS) if r.random() < 0.3 else ALPHABETS[0]
        out = bytearray()
        while len(out) < n:
            ch = r.choice(alpha).encode()
            if len(out) + len(ch) > n:
                ch = b"x"
            out += ch
        return bytes(out)

    def raw_bytes(self):
        r = self.rng
        c = r.random()
        n = r.choice(STR_LENS_COMMON) if c < 0.8 else r.choice(STR_LENS_BOUNDARY) if (c < 0.97 or not self.big) else r.choice([16383, 16384, 70000])
        return bytes(r.getrandbits(8) for _ in range(n))

    def prim(self, ktype: str, optional: bool):
        r = self.rng
        if optional and r.random() < 0.3:
            return ("N",)
        if ktype in INT_RANGES:
            return ("I", self.clamp_int(*INT_RANGES[ktype]))
        if ktype == "float64":
            c = r.random()
            if c < 0.3:
                return ("F", r.choice([0, 1 << 63, 1, 0x3FF0000000000000, 0x7FEFFFFFFFFFFFFF,
                                       0xFFEFFFFFFFFFFFFF, 0x0010000000000000, 0x000FFFFFFFFFFFFF]))
            while True:
                b = r.getrandbits(64)
                if (b >> 52) & 0x7FF != 0x7FF:
                    return ("F", b)
        if ktype == "string":
            return ("S", self.string_bytes())
        if ktype in ("bytes", "records"):
            return ("Y", self.raw_bytes())
        if ktype == "uuid":
            if r.random() < 0.25:
                return ("N",)
            b = bytes(r.getrandbits(8) for _ in range(16))
            return ("U", b if any(b) else b"\x01" * 16)
        if ktype == "bool":
            return ("B", r.random() < 0.5)
        if ktype == "error_code":
            return ("I", r.choice(self.codes))
        if ktype == "timedelta_i32":
            return ("T", self.clamp_int(-2**31, 2**31 - 1) * 1000)
        if ktype == "timedelta_i64":
            c = r.random()
            if c < 0.3:
                ms = r.choice([TD64_LO, TD64_HI, 2**53 + 1, -(2**53 + 1), 9007199254740993,
                               36028797018976313, 0, 1, -1])
            else:
                ms = self.clamp_int(TD64_LO, TD64_HI)
            return ("T", ms * 1000)
        if ktype == "datetime_i64":
            c = r.random()
            if c < 0.3:
                ms = r.choice([0, 1, 999, 1000, 1001, MAX_TS_MS, MAX_TS_MS - 999, 1234567890123,
                               139751028864291])
            else:
                ms = r.randint(0, MAX_TS_MS)
            if not self.tz_ms:
                ms = ms // 1000 * 1000
            return ("D", ms * 1000)
        raise ValueError(ktype)

    # ---- structure --------------------------------------------------------------------
    @staticmethod
    def split(tp):
        """(kind, leaf/elem annotation, optional, elem_optional)"""
        opt = False
        if typing.get_origin(tp) in (types.UnionType, typing.Union):
            args = [a for a in typing.get_args(tp) if a is not type(None)]
            tp, opt = args[0], True
        if typing.get_origin(tp) is tuple:
            elem = typing.get_args(tp)[0]
            eopt = False
            if typing.get_origin(elem) in (types.UnionType, typing.Union):
                elem = [a for a in typing.get_args(elem) if a is not type(None)][0]
                eopt = True
            if dataclasses.is_dataclass(elem):
                return "entArr", elem, opt, False
            return "primArr", elem, opt, eopt
        if dataclasses.is_dataclass(tp):
            return "ent", tp, opt, False
        return "prim", tp, opt, False

    def array_len(self):
        if self.budget <= 0:
            return 0
        r = self.rng
        return r.choice([0, 0, 1, 1, 1, 2, 2, 3, 5]) if r.random() < 0.97 else r.choice([127, 128, 130])

    def field(self, f, default_prob: float):
        r = self.rng
        if f.default is not dataclasses.MISSING and r.random() < default_prob:
            return values.abstract(f.default)
        kind, leaf, opt, eopt = self.split(f.type)
        kt = f.metadata.get("kafka_type")
        if kind == "prim":
            return self.prim(kt, opt)
        if kind == "primArr":
            if opt and r.random() < 0.2:
                return ("N",)
            n = self.array_len()
            self.budget -= n
            return ("A", [self.prim(kt, eopt) for _ in range(n)])
        if kind == "ent":
            if opt and r.random() < 0.3:
                return ("N",)
            return self.entity(leaf, default_prob)
        if kind == "entArr":
            if opt and r.random() < 0.25:
                return ("N",)
            n = min(self.array_len(), 6)
            self.budget -= n
            return ("A", [self.entity(leaf, default_prob) for _ in range(n)])
        raise ValueError(kind)

    def entity(self, cls, default_prob: float = 0.3):
        return ("E", [self.field(f, default_prob) for f in dataclasses.fields(cls)])

    def instance(self, cls, budget: int = 40, default_prob: float | None = None):
        self.budget = budget
        if default_prob is None:
            default_prob = self.rng.choice([0.0, 0.2, 0.5, 0.9])
        return self.entity(cls, default_prob)


def has_nondefault(cls, a) -> bool:
    """non-trivial rule (DESIGN C.5): at least one non-default field, or no defaults at all"""
    fs = dataclasses.fields(cls)
    anydef = False
    for f, x in zip(fs, a[1]):
        if f.default is not dataclasses.MISSING:
            anydef = True
            if values.abstract(f.default) != x:
                return True
    return not anydef
