"""Shared plumbing of the checks: translate + build + audit, evidence, replays, known findings."""
from __future__ import annotations

import fcntl
import hashlib
import json
import os
import re
import subprocess
import sys
import time

VERIF = os.path.dirname(os.path.dirname(os.path.abspath(__file__)))
LEAN_DIR = os.path.join(VERIF, "lean")
CACHE = os.path.join(VERIF, ".cache")
EVIDENCE = os.path.join(VERIF, "evidence")
REPLAYS = os.path.join(VERIF, "replays")
PY = "/venv/bin/python"
REPO = os.environ.get("KIO_REPO", "/repo")

ALLOWED_AXIOMS = {"propext", "Classical.choice", "Quot.sound"}
BANNED = re.compile(
    r"\bsorry\b|\badmit\b|^\s*axiom\s|native_decide|bv_decide|implemented_by|\bunsafe\s|maxHeartbeats\s+0\b",
    re.M,
)


class Infra(Exception):
    """infrastructure failure: exit 2, never a VIOLATION"""


def log(*a):
    print(*a, file=sys.stderr, flush=True)


class Lock:
    def __enter__(self):
        os.makedirs(CACHE, exist_ok=True)
        self.fh = open(os.path.join(CACHE, "lock"), "w")
        fcntl.flock(self.fh, fcntl.LOCK_EX)
        return self

    def __exit__(self, *a):
        fcntl.flock(self.fh, fcntl.LOCK_UN)
        self.fh.close()


def sh(cmd, cwd=None, timeout=3600, env=None):
    p = subprocess.run(cmd, cwd=cwd, stdout=subprocess.PIPE, stderr=subprocess.STDOUT,
                       timeout=timeout, env=env)
    return p.returncode, p.stdout.decode(errors="replace")


def translate():
    """/repo working tree -> lean/Kio/Generated (rewritten only on change)."""
    rc, out = sh([PY, os.path.join(VERIF, "harness", "translate.py")], cwd=VERIF)
    if rc != 0:
        return None, out
    try:
        return json.loads(out.strip().splitlines()[-1]), out
    except Exception:
        return None, out


def lake_build(targets: list[str]):
    """returns (ok, output)"""
    rc, out = sh(["lake", "build", *targets], cwd=LEAN_DIR)
    return rc == 0, out


def leanchecker(module: str):
    """second opinion: re-check the compiled .olean of `module` (and what it imports) with the
    toolchain's independent checker; returns (ok, output)"""
    rc, out = sh(["lake", "env", "leanchecker", module], cwd=LEAN_DIR)
    return rc == 0, out


def strip_comments(src: str) -> str:
    # block comments (possibly nested) then line comments
    out, depth, i = [], 0, 0
    while i < len(src):
        if src.startswith("/-", i):
            depth += 1
            i += 2
        elif src.startswith("-/", i) and depth:
            depth -= 1
            i += 2
        elif depth:
            i += 1
        else:
            out.append(src[i])
            i += 1
    return re.sub(r"--.*", "", "".join(out))


def import_closure(module: str) -> list[str]:
    """files of the Kio.* modules `module` transitively imports (itself included)"""
    seen, todo, files = set(), [module], []
    while todo:
        m = todo.pop()
        if m in seen or not (m == "Kio" or m.startswith("Kio.")):
            continue
        seen.add(m)
        p = os.path.join(LEAN_DIR, *m.split(".")) + ".lean"
        if not os.path.exists(p):
            continue
        files.append(p)
        for line in open(p):
            mm = re.match(r"\s*import\s+([\w.]+)", line)
            if mm:
                todo.append(mm.group(1))
    return files


def grep_banned(module: str | None = None) -> list[str]:
    """banned constructs (sorry, axiom, native_decide …) in the sources the module depends on"""
    hits = []
    if module:
        paths = import_closure(module)
    else:
        paths = [os.path.join(r, f) for r, _, fs in os.walk(os.path.join(LEAN_DIR, "Kio")) for f in fs if f.endswith(".lean")]
    for p in paths:
        src = strip_comments(open(p).read())
        for m in BANNED.finditer(src):
            hits.append(f"{os.path.relpath(p, LEAN_DIR)}: {m.group(0).strip()}")
    return hits


def audit(module: str, theorems: list[str]):
    """`#print axioms` for each theorem.  Returns {name: (ok, axioms|error)}."""
    os.makedirs(CACHE, exist_ok=True)
    path = os.path.join(CACHE, f"Audit_{module.replace('.', '_')}.lean")
    with open(path, "w") as fh:
        fh.write(f"import {module}\n")
        for t in theorems:
            fh.write(f"#print axioms {t}\n")
    rc, out = sh(["lake", "env", "lean", path], cwd=LEAN_DIR)
    res = {}
    flat = re.sub(r"\s+", " ", out)
    for t in theorems:
        m = re.search(r"'" + re.escape(t) + r"' depends on axioms: \[([^\]]*)\]", flat)
        if m:
            axs = [a.strip() for a in m.group(1).split(",") if a.strip()]
            res[t] = (set(axs) <= ALLOWED_AXIOMS, axs)
        elif re.search(r"'" + re.escape(t) + r"' does not depend on any axioms", flat):
            res[t] = (True, [])
        else:
            res[t] = (False, ["<missing or failed to elaborate>"])
    return res, out


def write_evidence(pid: str, tier: str, seed: int, level: str, coverage: dict, wall: float,
                   violations: int, assumptions: list[str]):
    os.makedirs(EVIDENCE, exist_ok=True)
    doc = {
        "property_id": pid, "tier": tier, "seed": seed, "level": level,
        "coverage": coverage, "assumptions": assumptions, "wall_s": round(wall, 2),
        "violations": violations,
    }
    tmp = os.path.join(EVIDENCE, f"{pid}.json.tmp")
    with open(tmp, "w") as fh:
        json.dump(doc, fh, indent=1, sort_keys=True, default=str)
    os.replace(tmp, os.path.join(EVIDENCE, f"{pid}.json"))


def write_replay(pid: str, doc: dict) -> str:
    os.makedirs(REPLAYS, exist_ok=True)
    blob = json.dumps(doc, sort_keys=True, default=str)
    h = hashlib.sha1(blob.encode()).hexdigest()[:12]
    rel = f"replays/{pid}-{h}.json"
    with open(os.path.join(VERIF, rel), "w") as fh:
        json.dump(doc, fh, indent=1, sort_keys=True, default=str)
    return rel


def known_findings(pid: str):
    p = os.path.join(VERIF, "known_findings.json")
    if not os.path.exists(p):
        return []
    doc = json.load(open(p))
    return [f for f in doc.get("findings", []) if f.get("property") == pid]


def digest(obj) -> str:
    return hashlib.sha1(json.dumps(obj, sort_keys=True, default=str).encode()).hexdigest()
