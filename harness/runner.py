"""The `./check` entry point: translate, build, audit, correspondence, decision (DESIGN §2.3)."""
from __future__ import annotations

import argparse
import importlib
import json
import os
import sys
import time
import traceback

HERE = os.path.dirname(os.path.abspath(__file__))
sys.path.insert(0, HERE)
import common  # noqa: E402
from common import Infra, log  # noqa: E402

TRUSTED_BASE = [
    "Lean 4.33 kernel",
    "axioms ⊆ {propext, Classical.choice, Quot.sound} (printed per theorem by the audit)",
    "harness/translate.py prints what it introspected from /repo",
    "correspondence harness (harness/*.py) compares model and code faithfully",
    "kio control flow is modelled by hand in lean/Kio/Model and tied by differential testing",
    "CPython struct/int/bytes/str/datetime/dataclasses/functools.cache behave as modelled",
]


class Ctx:
    """what a property module gets"""

    def __init__(self, pid, tier, seed):
        self.pid, self.tier, self.seed = pid, tier, seed
        self.violations = []     # (summary, replay-doc)
        self.known = []          # (finding-id, summary)
        self.notes = []
        self.coverage = {}
        self.assumptions = []
        self.broken = []         # theorems / correspondences that no longer check

    def violation(self, summary: str, doc: dict):
        self.violations.append((summary, doc))

    def known_finding(self, fid: str, summary: str):
        self.known.append((fid, summary))


def main():
    ap = argparse.ArgumentParser()
    ap.add_argument("pid")
    ap.add_argument("--tier", default=os.environ.get("VERIF_TIER", "quick"))
    ap.add_argument("--replay")
    args = ap.parse_args()
    pid = args.pid.upper()
    seed = int(os.environ.get("VERIF_SEED", "0") or 0)
    tier = args.tier if args.tier in ("quick", "thorough") else "quick"
    t0 = time.time()
    try:
        mod = importlib.import_module(f"props.{pid.lower()}")
    except ImportError as e:
        log(f"no check for {pid}: {e}")
        sys.exit(2)
    if args.replay:
        doc = json.load(open(args.replay))
        sys.exit(mod.replay(doc))
    ctx = Ctx(pid, tier, seed)
    try:
        # 1-2. translate + build the model (needed by the driver)
        with common.Lock():
            info, out = common.translate()
            if info is None:
                # the tree no longer imports: that is reportable by C04/C09, infra for the rest
                ctx.translate_error = out
                if not getattr(mod, "HANDLES_IMPORT_FAILURE", False):
                    raise Infra("translator failed:\n" + out[-3000:])
            ok, out = common.lake_build(["Kio"])
            if not ok:
                raise Infra("model build failed:\n" + out[-3000:])
            # 3. property theorems: build + audit
            proof = {"obligations": 0, "discharged": 0, "theorems": {}}
            module = getattr(mod, "LEAN_MODULE", None)
            theorems = getattr(mod, "THEOREMS", [])
            if module:
                okb, outb = common.lake_build([module])
                if okb:
                    res, aout = common.audit(module, theorems)
                else:
                    res = {t: (False, ["<module does not build>"]) for t in theorems}
                    ctx.notes.append("build of " + module + " failed: " + outb[-1500:])
                for t, (good, axs) in res.items():
                    proof["theorems"][t] = {"ok": good, "axioms": axs}
                    proof["obligations"] += 1
                    proof["discharged"] += 1 if good else 0
                    if not good:
                        ctx.broken.append(f"theorem {t}: {axs}")
                if okb and tier == "thorough":
                    okc, outc = common.leanchecker(module)
                    proof["leanchecker"] = "ok" if okc else outc[-800:]
                    if not okc:
                        ctx.broken.append("leanchecker rejects " + module + ": " + outc[-400:])
                banned = common.grep_banned(module)
                if banned:
                    ctx.broken.append("banned constructs: " + "; ".join(banned[:5]))
                    proof["discharged"] = 0
        # 4-5. correspondence + direct evaluation of the property on the implementation
        mod.run(ctx)
    except Infra as e:
        log("INFRA:", e)
        sys.exit(2)
    except Exception:
        log("INFRA (unexpected):", traceback.format_exc())
        sys.exit(2)
    wall = time.time() - t0
    # 6. decision
    rc = 0
    for fid, summary in ctx.known:
        print(f"KNOWN-FINDING: property={pid} {fid}: {summary}")
    nviol = 0
    for summary, doc in ctx.violations[:5]:
        doc = dict(doc, property=pid, seed=seed, tier=tier, summary=summary)
        rel = common.write_replay(pid, doc)
        print(f"VIOLATION property={pid} replay={rel}  # {summary}")
        nviol += 1
        rc = 1
    if not ctx.violations and ctx.broken:
        doc = {"property": pid, "seed": seed, "tier": tier, "kind": "no-failing-input",
               "broken": ctx.broken, "notes": ctx.notes}
        rel = common.write_replay(pid, doc)
        print(f"VIOLATION property={pid} replay={rel} no-failing-input-found")
        nviol += 1
        rc = 1
    cov = dict(ctx.coverage)
    cov.setdefault("obligations", proof["obligations"])
    cov.setdefault("discharged", proof["discharged"])
    cov.setdefault("checker_cmd", f"cd lean && lake build {module} && lake env lean .cache/Audit (#print axioms)")
    cov.setdefault("trusted_base", TRUSTED_BASE + getattr(mod, "EXTRA_TRUSTED", []))
    cov["theorems"] = proof["theorems"]
    if "leanchecker" in proof:
        cov["leanchecker"] = proof["leanchecker"]
    cov["known_findings_reported"] = [k[0] for k in ctx.known]
    cov["notes"] = ctx.notes
    common.write_evidence(pid, tier, seed, getattr(mod, "LEVEL", "proof"), cov, wall, nviol,
                          TRUSTED_BASE + ctx.assumptions)
    log(f"{pid} {tier} seed={seed}: rc={rc} wall={wall:.1f}s "
        f"proof {proof['discharged']}/{proof['obligations']} "
        f"evaluations={cov.get('evaluations')}")
    sys.exit(rc)


if __name__ == "__main__":
    main()
