"""Translator: /repo working tree -> lean/Kio/Generated/*.lean  (DESIGN §4.1).

Everything that is *data* in kio (class descriptors, index tables, error codes, interval
bounds …) is re-read from the source by documented introspection on every run and printed as
Lean terms; the instance theorems are then re-checked by the kernel against what the code says
now.  Files are only rewritten when their content changes."""
from __future__ import annotations

import dataclasses
import datetime
import enum
import hashlib
import json
import os
import sys
import types
import typing
import uuid

HERE = os.path.dirname(os.path.abspath(__file__))
VERIF = os.path.dirname(HERE)
sys.path.insert(0, HERE)
import kioload  # noqa: E402

GEN_DIR = os.path.join(VERIF, "lean", "Kio", "Generated")
CACHE = os.path.join(VERIF, ".cache")

EPOCH = datetime.datetime(1970, 1, 1, tzinfo=datetime.timezone.utc)
ONE_US = datetime.timedelta(microseconds=1)


def prim_table():
    from kio.schema.errors import ErrorCode
    from kio.static import primitive as p

    return {
        p.i8: "i8", p.i16: "i16", p.i32: "i32", p.i64: "i64",
        p.u8: "u8", p.u16: "u16", p.u32: "u32", p.u64: "u64",
        p.f64: "f64", str: "str", bytes: "bytes", p.Records: "records",
        uuid.UUID: "uuid", bool: "bool", ErrorCode: "errorCode",
        p.i32Timedelta: "i32Timedelta", p.i64Timedelta: "i64Timedelta", p.TZAware: "tzAware",
    }


KTYPES = {
    "int8": "int8", "int16": "int16", "int32": "int32", "int64": "int64",
    "uint8": "uint8", "uint16": "uint16", "uint32": "uint32", "uint64": "uint64",
    "float64": "float64", "string": "string", "bytes": "bytes", "records": "records",
    "uuid": "uuid", "bool": "bool", "error_code": "errorCode",
    "timedelta_i32": "timedeltaI32", "timedelta_i64": "timedeltaI64", "datetime_i64": "datetimeI64",
}


def lean_int(i: int) -> str:
    return str(i) if i >= 0 else f"({i})"


def lean_bytes(b: bytes) -> str:
    return "[" + ",".join(str(x) for x in b) + "]"


def value_term(v) -> str | None:
    """Python default value -> Lean `Value` term, or None if unrepresentable."""
    import struct

    if v is None:
        return ".none"
    if isinstance(v, bool):
        return f"(.bool {'true' if v else 'false'})"
    if isinstance(v, int):
        return f"(.int {lean_int(int(v))})"
    if isinstance(v, float):
        return f"(.float {struct.unpack('>Q', struct.pack('>d', v))[0]})"
    if isinstance(v, str):
        return f"(.str {lean_bytes(v.encode())})"
    if isinstance(v, bytes):
        return f"(.bytes {lean_bytes(bytes(v))})"
    if isinstance(v, uuid.UUID):
        return f"(.uuid {lean_bytes(v.bytes)})"
    if isinstance(v, datetime.timedelta):
        return f"(.timedelta {lean_int(v // ONE_US)})"
    if isinstance(v, datetime.datetime):
        if v.tzinfo is None or v.tzinfo.utcoffset(v) is None:
            return None
        return f"(.datetime {lean_int((v - EPOCH) // ONE_US)})"
    if isinstance(v, tuple):
        items = [value_term(x) for x in v]
        if any(i is None for i in items):
            return None
        return "(.tuple [" + ", ".join(items) + "])"
    if dataclasses.is_dataclass(v) and not isinstance(v, type):
        items = [value_term(getattr(v, f.name)) for f in dataclasses.fields(v)]
        if any(i is None for i in items):
            return None
        return "(.entity [" + ", ".join(items) + "])"
    return None


class Translator:
    def __init__(self):
        self.prims = prim_table()
        self.classes = kioload.all_classes()
        self.key_of = {c: k for k, c in self.classes}
        self.order: list[type] = []     # emission order (dependencies first)
        self.idx: dict[type, int] = {}
        self.names: dict[str, int] = {}
        for _, c in self.classes:
            self.visit(c)
        self.intern_all()

    def intern_all(self):
        """ids are assigned in sorted order, so the Lean side can check injectivity of the
        interning by one linear strictly-ascending pass"""
        import kio.schema.index as kindex

        pool = set()
        for c in self.order:
            pool.add(c.__name__)
            for f in dataclasses.fields(c):
                pool.add(f.name)
        for name, _ in kioload.walk_schema_modules():
            pool.add(name.split(".")[2])
        pool.update(kindex.api_key_map.values())
        pool.update(kindex.schema_name_map.keys())
        try:
            import kio.records.schema as krs
            for rn in ("RecordHeader", "Record", "RecordBatch", "NewRecordBatch"):
                rc = getattr(krs, rn, None)
                if rc is not None and dataclasses.is_dataclass(rc):
                    pool.add(rn)
                    pool.update(f.name for f in dataclasses.fields(rc))
        except Exception:  # noqa: BLE001
            pass
        self.names = {n: i for i, n in enumerate(sorted(pool))}

    def name_id(self, s: str) -> int:
        if s not in self.names:
            raise RuntimeError(f"name {s!r} was not interned")
        return self.names[s]

    def deps(self, c):
        out = []
        for f in dataclasses.fields(c):
            for d in self.type_deps(f.type):
                out.append(d)
        return out

    def type_deps(self, tp):
        if dataclasses.is_dataclass(tp) and isinstance(tp, type):
            return [tp]
        out = []
        for a in typing.get_args(tp):
            if a is not Ellipsis:
                out.extend(self.type_deps(a))
        return out

    def visit(self, c, stack=()):
        if c in self.idx:
            return
        if c in stack:
            raise RuntimeError(f"recursive entity type {c}")
        for d in self.deps(c):
            self.visit(d, stack + (c,))
        self.idx[c] = len(self.order)
        self.order.append(c)

    # ---- annotation -> Shape -------------------------------------------------------------
    def leaf(self, tp) -> str:
        if tp in self.prims:
            return f"⟨.{self.prims[tp]}, false⟩"
        if isinstance(tp, type) and tp.__bases__ and tp.__bases__[0] in self.prims:
            return f"⟨.{self.prims[tp.__bases__[0]]}, true⟩"
        return "⟨.other, false⟩"

    @staticmethod
    def strip_optional(tp):
        """(inner, True) for `X | None`, (tp, False) for a non-union, None for other unions."""
        if typing.get_origin(tp) in (types.UnionType, typing.Union):
            args = typing.get_args(tp)
            if len(args) == 2 and type(None) in args:
                inner = args[0] if args[1] is type(None) else args[1]
                return inner, True
            return None
        return tp, False

    def shape(self, tp) -> str:
        so = self.strip_optional(tp)
        if so is None:
            return ".bad"
        inner, opt = so
        b = "true" if opt else "false"
        if typing.get_origin(inner) is tuple:
            args = typing.get_args(inner)
            if len(args) != 2 or args[1] is not Ellipsis:
                return ".bad"
            elem = args[0]
            if dataclasses.is_dataclass(elem) and isinstance(elem, type):
                return f"(.entArr c{self.idx[elem]} {b})"
            eo = self.strip_optional(elem)
            if eo is None:
                return ".bad"
            einner, eopt = eo
            if not isinstance(einner, type) or dataclasses.is_dataclass(einner):
                return ".bad"
            return f"(.primArr {self.leaf(einner)} {'true' if eopt else 'false'} {b})"
        if typing.get_origin(inner) is not None:
            return ".bad"
        if dataclasses.is_dataclass(inner) and isinstance(inner, type):
            return f"(.ent c{self.idx[inner]} {b})"
        if not isinstance(inner, type):
            return ".bad"
        return f"(.prim {self.leaf(inner)} {b})"

    def field_term(self, f) -> str:
        md = dict(f.metadata)
        if "kafka_type" in md:
            kt = md["kafka_type"]
            if not isinstance(kt, str):
                ktt = "(some .notStr)"
            else:
                ktt = f"(some .{KTYPES.get(kt, 'unknown')})"
        else:
            ktt = "none"
        if "tag" in md:
            t = md["tag"]
            tagt = f"(some {lean_int(int(t))})" if isinstance(t, int) and not isinstance(t, bool) else "(some (-1))"
        else:
            tagt = "none"
        extra = "true" if set(md) - {"kafka_type", "tag"} else "false"
        if f.default_factory is not dataclasses.MISSING:
            d = ".unrepresentable"
        elif f.default is dataclasses.MISSING:
            d = ".missing"
        else:
            vt = value_term(f.default)
            d = f"(.val {vt})" if vt is not None else ".unrepresentable"
        cid = "true" if f.name == "client_id" else "false"
        return f"F {self.name_id(f.name)} {cid} {ktt} {tagt} {d} {extra} {self.shape(f.type)}"

    def class_term(self, c) -> str:
        fs = ",\n    ".join(self.field_term(f) for f in dataclasses.fields(c))
        flex = "true" if c.__flexible__ else "false"
        rh = "true" if c.__name__ == "RequestHeader" else "false"
        return f"def c{self.idx[c]} : Schema := .mk {self.name_id(c.__name__)} {flex} {rh} [\n    {fs}]"



ETYPE = {"request": ".request", "response": ".response", "header": ".header", "data": ".data", "nested": ".nested"}


def lean_bool(b) -> str:
    return "true" if b else "false"


def lean_opt(x, f=str) -> str:
    return "none" if x is None else f"(some {f(x)})"


def lean_chars(sv: str) -> str:
    return "[" + ",".join(str(ord(ch)) for ch in sv) + "]"


IMMUTABLE_LEAVES = None


def immutable_annotation(tp) -> bool:
    """only tuples (never lists/dicts/sets) of immutable leaves or dataclasses"""
    import datetime as _dt
    import enum as _enum

    origin = typing.get_origin(tp)
    if origin in (types.UnionType, typing.Union):
        return all(a is type(None) or immutable_annotation(a) for a in typing.get_args(tp))
    if origin is tuple:
        args = typing.get_args(tp)
        return len(args) == 2 and args[1] is Ellipsis and immutable_annotation(args[0])
    if origin is not None:
        return False
    if dataclasses.is_dataclass(tp):
        return True      # checked on its own (every class is in the table)
    return isinstance(tp, type) and issubclass(
        tp, (int, float, str, bytes, bool, uuid.UUID, _dt.timedelta, _dt.datetime, _enum.Enum, type(None)))


def gen_info(tr):
    import importlib

    import kio.schema.index as kindex
    from kio.static.constants import EntityType
    import builtins as _b

    CHUNK = 32
    mods = kioload.walk_schema_modules()

    def modkey(name):
        parts = name.split(".")
        return f"⟨{tr.name_id(parts[2])}, {int(parts[3][1:])}, {ETYPE[parts[4]]}⟩"

    lines = ["import Kio.Model.Tables\n/-! generated by harness/translate.py — do not edit -/\n"
             "namespace Kio.Generated\nopen Kio\n"]
    # classes, in chunks of CHUNK
    def hash_generated(c):
        return getattr(getattr(c, "__hash__", None), "__qualname__", "") == c.__qualname__ + ".__hash__"

    cls_terms = []
    for c in tr.order:
        key = tr.key_of[c]
        modname = key.split(":")[0]
        p = getattr(c, "__dataclass_params__", None)
        if p is not None:
            params = ("(some ⟨" + ", ".join(lean_bool(getattr(p, a)) for a in (
                "init", "repr", "eq", "order", "unsafe_hash", "frozen", "match_args", "kw_only",
                "slots", "weakref_slot")) + "⟩)")
        else:
            params = "none"
        hs = getattr(c, "__header_schema__", None)
        hidx = tr.idx.get(hs) if isinstance(hs, type) else None
        has_dict = any("__dict__" in vars(k) for k in c.__mro__[:-1])
        et = getattr(c, "__type__", None)
        etn = et.name if isinstance(et, EntityType) else None
        ak = getattr(c, "__api_key__", None)
        fields = []
        for f in dataclasses.fields(c):
            fields.append("⟨" + ", ".join([
                str(tr.name_id(f.name)), lean_bool(f.init), lean_bool(f.repr), lean_bool(f.compare),
                lean_bool(f.kw_only), lean_bool(immutable_annotation(f.type)),
                lean_bool(f.default_factory is not dataclasses.MISSING)]) + "⟩")
        refs = []
        for f in dataclasses.fields(c):
            for dep in tr.type_deps(f.type):
                if dep in tr.idx and tr.idx[dep] not in refs:
                    refs.append(tr.idx[dep])
        cls_terms.append((
            "  { idx := %%d, mod := %%s, nameId := %%d, qualnameIsName := %%s, etype := %%s, version := %%s, "
            "flexible := %%s, apiKey := %%s, headerIdx := %%s, params := %%s, hasSlots := %%s, hasDict := %%s, "
            "hashable := %%s, fields := [%%s], hashGenerated := %%s, refs := [%s] }" % ", ".join(map(str, refs))) % (
                tr.idx[c], modkey(modname), tr.name_id(c.__name__), lean_bool(c.__qualname__ == c.__name__),
                ETYPE.get(etn, ".nested") if etn else ".nested",
                lean_int(int(getattr(c, "__version__", -1))), lean_bool(getattr(c, "__flexible__", False)),
                lean_opt(None if ak is None else int(ak), lean_int), lean_opt(hidx),
                params, lean_bool("__slots__" in vars(c)), lean_bool(has_dict),
                lean_bool(getattr(c, "__hash__", None) is not None), ", ".join(fields), lean_bool(hash_generated(c))))
    # the record classes (kio.records.schema) are value objects too (C15)
    import kio.records.schema as krs
    rec_terms = []
    for rn in ("RecordHeader", "Record", "RecordBatch", "NewRecordBatch"):
        c = getattr(krs, rn, None)
        if c is None or not dataclasses.is_dataclass(c):
            continue
        p = c.__dataclass_params__
        params = ("(some ⟨" + ", ".join(lean_bool(getattr(p, a)) for a in (
            "init", "repr", "eq", "order", "unsafe_hash", "frozen", "match_args", "kw_only",
            "slots", "weakref_slot")) + "⟩)")
        try:
            hints = typing.get_type_hints(c)
        except Exception:  # noqa: BLE001
            hints = {}
        fields = []
        for f in dataclasses.fields(c):
            fields.append("⟨" + ", ".join([
                str(tr.name_id(f.name)), lean_bool(f.init), lean_bool(f.repr), lean_bool(f.compare),
                lean_bool(f.kw_only), lean_bool(f.name in hints and immutable_annotation(hints[f.name])),
                lean_bool(f.default_factory is not dataclasses.MISSING)]) + "⟩")
        rec_terms.append(
            "  { idx := %d, mod := ⟨0, 0, .nested⟩, nameId := %d, qualnameIsName := %s, etype := .nested, version := -1, "
            "flexible := false, apiKey := none, headerIdx := none, params := %s, hasSlots := %s, hasDict := %s, "
            "hashable := %s, fields := [%s], hashGenerated := %s }" % (
                len(rec_terms), tr.name_id(rn), lean_bool(c.__qualname__ == c.__name__), params,
                lean_bool("__slots__" in vars(c)), lean_bool(any("__dict__" in vars(k) for k in c.__mro__[:-1])),
                lean_bool(getattr(c, "__hash__", None) is not None), ", ".join(fields), lean_bool(hash_generated(c))))
    lines.append("def recordClasses : List ClassInfo := [\n" + ",\n".join(rec_terms) + "]\n")
    nchunks = 0
    for n in range(0, max(len(cls_terms), 1), CHUNK):
        lines.append(f"def classChunk{n // CHUNK} : List ClassInfo := [\n" + ",\n".join(cls_terms[n:n + CHUNK]) + "]\n")
        nchunks += 1
    lines.append("def classChunks : List (List ClassInfo) := [" + ", ".join(f"classChunk{k}" for k in range(nchunks)) + "]\n")
    # modules grouped by package (with the top-level class and its class variables as a witness)
    groups = {}
    for name, mod in mods:
        parts = name.split(".")
        mcs = kioload.module_classes(mod)
        cs = [tr.idx[c] for c in mcs]
        tops = [c for c in mcs if getattr(getattr(c, "__type__", None), "name", None) == parts[4]]
        top = tops[0] if tops else (mcs[-1] if mcs else None)
        tak = getattr(top, "__api_key__", None)
        ths = getattr(top, "__header_schema__", None)
        term = ("    { key := %s, classes := [%s], top := %s, flexible := %s, apiKey := %s, headerIdx := %s }" % (
            modkey(name), ", ".join(map(str, cs)), tr.idx[top] if top is not None else 0,
            lean_bool(getattr(top, "__flexible__", False)),
            lean_opt(None if tak is None else int(tak), lean_int),
            lean_opt(tr.idx.get(ths) if isinstance(ths, type) else None)))
        groups.setdefault(parts[2], []).append(term)
    gterms = []
    for gi, (api, terms) in enumerate(groups.items()):
        lines.append(f"def apiGroup{gi} : ApiGroup := {{ api := {tr.name_id(api)}, modules := [\n" + ",\n".join(terms) + "] }\n")
        gterms.append(f"apiGroup{gi}")
    lines.append("def apiGroups : List ApiGroup := [" + ", ".join(gterms) + "]\n")
    # index tables as the code has them (nested like the dicts)
    key_terms = [f"({lean_int(int(k))}, {tr.name_id(v)})" for k, v in kindex.api_key_map.items()]
    modnames = {n for n, _ in mods}
    iterms = []
    for ni, (name, vmap) in enumerate(kindex.schema_name_map.items()):
        vterms = []
        for ver, tmap in vmap.items():
            leaves = []
            for et, path in tmap.items():
                modpath, _, qn = path.partition(":")
                try:
                    m = importlib.import_module(modpath)
                    obj = getattr(m, qn, None)
                except Exception:  # noqa: BLE001
                    m, obj = None, None
                mk = "none"
                if m is not None:
                    parts = modpath.split(".")
                    if (len(parts) == 5 and parts[:2] == ["kio", "schema"] and parts[3][:1] == "v"
                            and parts[3][1:].isdigit() and parts[4] in ETYPE and parts[2] in tr.names):
                        mk = f"(some {modkey(modpath)})"
                leaves.append("⟨%s, %s, %s⟩" % (
                    ETYPE.get(getattr(et, "name", None), ".nested"), mk,
                    lean_opt(tr.idx.get(obj) if isinstance(obj, type) else None)))
            vterms.append(f"({lean_int(int(ver))}, [{', '.join(leaves)}])")
        lines.append(f"def indexName{ni} : IndexName := {{ name := {tr.name_id(name)}, versions := [\n    "
                     + ",\n    ".join(vterms) + "] }\n")
        iterms.append(f"indexName{ni}")
    lines.append("def indexNames : List IndexName := [" + ", ".join(iterms) + "]\n")
    lines.append("def apiKeyMap : List (Int × Nat) := [" + ", ".join(key_terms) + "]\n")
    names = sorted(tr.names, key=tr.names.get)
    nn = 0
    for n in range(0, max(len(names), 1), CHUNK):
        lines.append(f"def nameChunk{n // CHUNK} : List (List Nat) := [" + ", ".join(lean_chars(x) for x in names[n:n + CHUNK]) + "]\n")
        nn += 1
    lines.append("def nameChunks : List (List (List Nat)) := [" + ", ".join(f"nameChunk{k}" for k in range(nn)) + "]\n")
    lines.append("def builtinNames : List (List Nat) := [" + ", ".join(lean_chars(n) for n in sorted(dir(_b))) + "]\n")
    lines.append("def tables : Tables := { classChunks := classChunks, apis := apiGroups, index := indexNames, "
                 "apiKeys := apiKeyMap, nameChunks := nameChunks, builtins := builtinNames, "
                 f"reqHeaderApi := {tr.names.get('request_header', 0)}, respHeaderApi := {tr.names.get('response_header', 0)} }}\n")
    lines.append("end Kio.Generated\n")
    side = {"modules": [n for n, _ in mods]}
    return "\n".join(lines), side

def gen_observed() -> str:
    """rows (name, primitive type) -> what `PrimitiveField.parse_obj` makes of it"""
    import importlib

    sys.path.insert(0, kioload.REPO)
    try:
        parser = importlib.import_module("codegen.parser")
    finally:
        sys.path.pop(0)
    names = ["timeoutMs", "TimeoutMs", "ThrottleTimeMs", "MaxWaitMs", "SessionLifetimeMs", "TransactionTimeoutMs",
             "MaxLifetimeMs", "SessionTimeoutMs", "RebalanceTimeoutMs", "ExpiryTimePeriodMs", "RenewPeriodMs",
             "RetentionTimeMs", "HeartbeatIntervalMs", "PushIntervalMs", "IssueTimestampMs", "ExpiryTimestampMs",
             "MaxTimestampMs", "TransactionStartTimeMs", "LogAppendTimeMs", "ErrorCode", "PartitionErrorCode",
             "Foo", "FooMs", "Ms", "ms", "Timeout", "ThrottleTime", "errorCode", "ErrorCodeMs", "throttleTimeMs"]
    # every string the parser module keeps in a set/tuple/list of names is a candidate too: a name
    # added to (or dropped from) one of its tables shows up as a row the model does not predict
    for obj in vars(parser).values():
        if isinstance(obj, (set, frozenset, tuple, list)) and obj and all(isinstance(x, str) for x in obj):
            for x in sorted(obj):
                if x not in names and x.isascii() and x.isidentifier():
                    names.append(x)
    prims = ["bool", "int8", "int16", "int32", "int64", "uint16", "uint32", "uint64", "float64", "string", "bytes",
             "uuid", "records"]
    rows = []
    for n in names:
        for t in prims:
            try:
                f = parser.PrimitiveField.parse_obj({"name": n, "type": t, "versions": "0+", "about": ""})
                out = f'(some ("{f.type.value}", "{f.name}"))'
            except Exception:  # noqa: BLE001
                out = "none"
            rows.append(f'  ⟨"{n}", .{t}, {out}⟩')
    return ("import Kio.Gen.Observed\n/-! generated by harness/translate.py — do not edit -/\n"
            "namespace Kio.Generated\nopen Kio Kio.Gen\n"
            "def resolveRows : List ResolveRow := [\n" + ",\n".join(rows) + "]\n"
            "end Kio.Generated\n")


def write_if_changed(path: str, content: str) -> bool:
    try:
        with open(path) as fh:
            if fh.read() == content:
                return False
    except FileNotFoundError:
        pass
    os.makedirs(os.path.dirname(path), exist_ok=True)
    tmp = path + ".tmp"
    with open(tmp, "w") as fh:
        fh.write(content)
    os.replace(tmp, path)
    return True


SHARDS = 16


def main():
    from kio.schema.errors import ErrorCode

    tr = Translator()
    n = len(tr.order)
    per = (n + SHARDS - 1) // SHARDS
    changed = []
    header = "import Kio.Model.Schema\nnamespace Kio.Generated\nopen Kio\n"
    common = (
        "import Kio.Model.Schema\n/-! generated by harness/translate.py — do not edit -/\n"
        "namespace Kio.Generated\nopen Kio\n"
        "@[reducible] def F (n : Nat) (cid : Bool) (kt : Option KType) (tag : Option Int) (d : Dflt) "
        "(extra : Bool) (sh : Shape) : Field :=\n  .mk ⟨n, cid, kt, tag, d, extra⟩ sh\n"
        "end Kio.Generated\n"
    )
    if write_if_changed(os.path.join(GEN_DIR, "Common.lean"), common):
        changed.append("Common")
    # shard boundaries only where no later class depends on an earlier one
    mindep = [min([tr.idx[d] for d in tr.deps(c)] + [i]) for i, c in enumerate(tr.order)]
    suffix_min = mindep[:] + [n]
    for i in range(n - 1, -1, -1):
        suffix_min[i] = min(mindep[i], suffix_min[i + 1])
    valid = [p for p in range(n + 1) if suffix_min[p] >= p]
    cuts = [0]
    for s in range(1, SHARDS):
        target = s * per
        best = min(valid, key=lambda p: abs(p - target))
        cuts.append(max(best, cuts[-1]))
    cuts.append(n)
    for s in range(SHARDS):
        lo, hi = cuts[s], cuts[s + 1]
        imports = "import Kio.Generated.Common\n"
        body = [imports + "/-! generated by harness/translate.py — do not edit -/\nnamespace Kio.Generated\nopen Kio\n"]
        for c in tr.order[lo:hi]:
            body.append(f"/-- {tr.key_of[c]} -/\n" + tr.class_term(c) + "\n")
        body.append(f"def shard{s} : List Schema := [" + ", ".join(f"c{i}" for i in range(lo, hi)) + "]\n")
        body.append("end Kio.Generated\n")
        if write_if_changed(os.path.join(GEN_DIR, f"Classes{s}.lean"), "\n".join(body)):
            changed.append(f"Classes{s}")
    codes = sorted(int(m.value) for m in ErrorCode)

    # ---- class / module / index information (C04, C08, C09, C13, C14, C15) -------------------
    info_src, info_side = gen_info(tr)
    if write_if_changed(os.path.join(GEN_DIR, "Info.lean"), info_src):
        changed.append("Info")
    side = {
        "classes": [tr.key_of[c] for c in tr.order],
        "names": sorted(tr.names, key=tr.names.get),
        "error_codes": codes,
        "info": info_side,
    }
    os.makedirs(CACHE, exist_ok=True)
    digest = hashlib.sha256(json.dumps(side, sort_keys=True).encode()).hexdigest()
    side["digest"] = digest
    # ---- primitive type bounds (C12) -----------------------------------------------------
    from kio.static import primitive as prim
    import datetime as _dt
    ivs = []
    for nm in ("i8", "i16", "i32", "i64", "u8", "u16", "u32", "u64", "uvarint", "uvarlong", "svarint", "svarlong"):
        t = getattr(prim, nm, None)
        if t is not None:
            ivs.append(f"(.{nm}, {lean_int(int(t.__low__))}, {lean_int(int(t.__high__))})")
    us = _dt.timedelta(microseconds=1)
    bounds_src = (
        "import Kio.Model.Phantom\n/-! generated by harness/translate.py — do not edit -/\n"
        "namespace Kio.Generated\nopen Kio\n"
        "def intervalBounds : List (PType × Int × Int) := [" + ", ".join(ivs) + "]\n"
        f"def td32Min : Int := {lean_int(prim.i32_timedelta_min // us)}\n"
        f"def td32Max : Int := {lean_int(prim.i32_timedelta_max // us)}\n"
        f"def td64Min : Int := {lean_int(prim.i64_timedelta_min // us)}\n"
        f"def td64Max : Int := {lean_int(prim.i64_timedelta_max // us)}\n"
        "def bounds : Bounds := { intervals := intervalBounds, td32 := (td32Min, td32Max), td64 := (td64Min, td64Max) }\n"
        "end Kio.Generated\n")
    if write_if_changed(os.path.join(GEN_DIR, "Bounds.lean"), bounds_src):
        changed.append("Bounds")
    # ---- the two dispatch tables, observed entry by entry (C13) ------------------------------
    from kio.serial import readers as _readers, writers as _writers
    from kio.serial._parse import get_reader as _get_reader
    from kio.serial._serialize import get_writer as _get_writer

    def fn_name(fn, module):
        # the public name under which the module exports this very object
        for nm, obj in vars(module).items():
            if obj is fn and not nm.startswith("_"):
                return nm
        return getattr(fn, "__name__", repr(fn))

    ktypes = ["int8", "int16", "int32", "int64", "uint8", "uint16", "uint32", "uint64", "float64", "string", "bytes",
              "records", "uuid", "bool", "error_code", "timedelta_i32", "timedelta_i64", "datetime_i64", "no_such_type"]

    def rows(get, module):
        out = []
        for t in ktypes:
            for fl in (False, True):
                for op in (False, True):
                    try:
                        nm = f'(some "{fn_name(get(t, fl, op), module)}")'
                    except NotImplementedError:
                        nm = "none"
                    except Exception as e:  # noqa: BLE001 - any other outcome is not what the model says
                        nm = f'(some "!{type(e).__name__}")'
                    out.append(f'  ⟨"{t}", {lean_bool(fl)}, {lean_bool(op)}, {nm}⟩')
        return ",\n".join(out)

    # implicit defaults of the primitive types, plain and through a subclass
    from kio.serial._implicit_defaults import get_implicit_default as _gid
    from kio.schema.errors import ErrorCode as _EC
    pybases = [("i8", prim.i8), ("i16", prim.i16), ("i32", prim.i32), ("i64", prim.i64), ("u8", prim.u8),
               ("u16", prim.u16), ("u32", prim.u32), ("u64", prim.u64), ("f64", prim.f64), ("str", str),
               ("bytes", bytes), ("records", prim.Records), ("uuid", uuid.UUID), ("bool", bool),
               ("errorCode", _EC), ("i32Timedelta", prim.i32Timedelta), ("i64Timedelta", prim.i64Timedelta),
               ("tzAware", prim.TZAware)]
    irows = []
    for nm, t in pybases:
        for sub in (False, True):
            tt = t
            if sub:
                try:
                    tt = type("Sub" + nm, (t,), {})
                except Exception:  # noqa: BLE001 - bool / an enum with members cannot be subclassed: ask for the type itself
                    tt = t
            try:
                term = value_term(_gid(tt))
                term = f"(some {term})" if term is not None else "none"
            except Exception:  # noqa: BLE001
                term = "none"
            irows.append(f"  ⟨.{nm}, {lean_bool(sub)}, {term}⟩")
    dispatch_src = (
        "import Kio.Model.Dispatch\n/-! generated by harness/translate.py — do not edit -/\n"
        "namespace Kio.Generated\nopen Kio\n"
        "def implicitRows : List ImplicitRow := [\n" + ",\n".join(irows) + "]\n"
        "def readerRows : List DispatchRow := [\n" + rows(_get_reader, _readers) + "]\n"
        "def writerRows : List DispatchRow := [\n" + rows(_get_writer, _writers) + "]\n"
        "end Kio.Generated\n")
    if write_if_changed(os.path.join(GEN_DIR, "Dispatch.lean"), dispatch_src):
        changed.append("Dispatch")
    # ---- the generator's name-based special cases, observed (C16/C04) -------------------------
    obs_src = gen_observed()
    if write_if_changed(os.path.join(GEN_DIR, "GenObserved.lean"), obs_src):
        changed.append("GenObserved")
    allc = (
        "".join(f"import Kio.Generated.Classes{s}\n" for s in range(SHARDS))
        + "/-! generated by harness/translate.py — do not edit -/\nnamespace Kio.Generated\nopen Kio\n"
        + "def allClasses : List Schema := "
        + " ++ ".join(f"shard{s}" for s in range(SHARDS))
        + "\n"
        + f"def numClasses : Nat := {n}\n"
        + "def errorCodes : List Int := [" + ", ".join(lean_int(c) for c in codes) + "]\n"
        + f'def digest : String := "{digest}"\n'
        + "end Kio.Generated\n"
    )
    if write_if_changed(os.path.join(GEN_DIR, "All.lean"), allc):
        changed.append("All")
    with open(os.path.join(CACHE, "gen.json"), "w") as fh:
        json.dump(side, fh)
    print(json.dumps({"classes": n, "changed": changed, "digest": digest}))


if __name__ == "__main__":
    main()
